#!/bin/bash
# Build the fact extractor offline (nightly toolchain + rustc-dev are pre-installed; zero crates).
set -euo pipefail
cd "$(dirname "$0")"
export CARGO_NET_OFFLINE=true
(cd engine/chessfacts && cargo build --release --offline)
mkdir -p .cache/facts evidence
echo "setup ok"
