"""E4 — compile-fail witnesses (thorough tier).

The witness crate (witness/src/lib.rs) is copied to a scratch directory with a Cargo.toml that
path-depends on the repository under analysis, and its doc tests are *compiled* with
`cargo +nightly test --doc --offline` (error codes of `compile_fail,E0xxx` are honoured on nightly
only).  A `compile_fail` example that compiles is a violation of the type-level clause it
witnesses; a twin (`no_run`) that does not compile, or a witness failing with another error code,
means the API changed shape and the verdict is inconclusive.  Results are cached per source tree."""
import hashlib, json, os, re, shutil, subprocess, tempfile

HERE = os.path.dirname(os.path.dirname(os.path.abspath(__file__)))

# property -> [(witness id, rule it supports, clause)]
WITNESSES = {
    'C01': [('C13_1', 'C01.R1', 'ChessMove components are private: equality is over exactly (source, dest, promotion)')],
    'C02': [('C02_1', 'C02.R3', 'Board fields cannot be written from outside the crate'),
            ('C18_1', 'C02.R3', 'make_move_new / null_move take the source by shared reference')],
    'C03': [('C03_1', 'C03.R2', 'checkers has no writer outside the crate'),
            ('C03_2', 'C03.R2', 'pinned has no writer outside the crate')],
    'C05': [('C05_1', 'C05.R2', 'no Board struct literal / functional update outside the crate')],
    'C07': [('C07_1', 'C07.R4', 'Square cannot be built from a raw byte without masking'),
            ('C05_1', 'C07.R3', 'no Board struct literal / functional update outside the crate')],
    'C08': [('C08_1', 'C08.R1', 'Board.hash has no writer outside the crate')],
    'C10': [('C10_1', 'C10.R3', 'Game.moves is private'), ('C10_2', 'C10.R3', 'actions() is a shared reference'),
            ('C10_3', 'C10.R3', 'Game.start_pos is private')],
    'C13': [('C13_1', 'C13.R3', 'ChessMove components are private')],
    'C14': [('C14_1', 'C14.R2', 'MoveGen cursor is private')],
    'C18': [('C18_1', 'C18.R2', 'null_move takes the source by shared reference')],
    'C19': [('C19_1', 'C19.R2', 'CacheTable.mask is private'), ('C19_2', 'C19.R2', 'CacheTable.table is private')],
}


def _run(repo):
    d = tempfile.mkdtemp(prefix='chess-wit-')
    try:
        shutil.copytree(os.path.join(HERE, 'witness', 'src'), os.path.join(d, 'src'))
        t = open(os.path.join(HERE, 'witness', 'Cargo.toml.in')).read().replace('@REPO@', os.path.abspath(repo))
        open(os.path.join(d, 'Cargo.toml'), 'w').write(t)
        shutil.copy(os.path.join(repo, 'Cargo.lock'), os.path.join(d, 'Cargo.lock'))
        env = dict(os.environ, CARGO_TARGET_DIR=os.path.join(d, 'target'), CARGO_NET_OFFLINE='true', RUSTFLAGS='-Awarnings')
        env.pop('RUSTC_WORKSPACE_WRAPPER', None)
        r = subprocess.run(['cargo', '+nightly', 'test', '--doc', '--offline'], cwd=d, env=env, stdout=subprocess.PIPE,
                           stderr=subprocess.STDOUT, text=True, timeout=1200)
        out = r.stdout
        res = {}
        for m in re.finditer(r'^test src/lib\.rs - (\w+) \(line \d+\)(?: - (compile fail|compile))? \.\.\. (\w+)', out, re.M):
            res[m.group(1)] = dict(kind=m.group(2) or 'run', status=m.group(3))
        # failure reasons
        for m in re.finditer(r'^---- src/lib\.rs - (\w+) \(line \d+\) stdout ----\n(.*?)(?=^---- |^failures:)', out, re.M | re.S):
            if m.group(1) in res:
                body = m.group(2)
                res[m.group(1)]['detail'] = body.strip()[:600]
                res[m.group(1)]['compiled'] = 'compiled successfully' in body
        if not res:
            return dict(error='no doc-test results parsed', tail=out[-1500:])
        return dict(results=res)
    except subprocess.TimeoutExpired:
        return dict(error='witness build timed out')
    finally:
        shutil.rmtree(d, ignore_errors=True)


def results(repo, tree_hash, no_cache=False):
    src = open(os.path.join(HERE, 'witness', 'src', 'lib.rs'), 'rb').read()
    key = hashlib.sha256(tree_hash.encode() + src).hexdigest()[:24]
    cdir = os.path.join(HERE, '.cache', 'witness')
    os.makedirs(cdir, exist_ok=True)
    cp = os.path.join(cdir, key + '.json')
    if os.path.exists(cp) and not no_cache:
        try:
            return json.load(open(cp))
        except Exception:
            pass
    r = _run(repo)
    if 'results' in r:
        tmp = cp + '.%d' % os.getpid()
        json.dump(r, open(tmp, 'w'))
        os.replace(tmp, cp)
    return r


def check(ctx, repo, no_cache=False):
    """Adds the witness verdicts of ctx.prop to ctx (rule ids '<prop>.W')."""
    wl = WITNESSES.get(ctx.prop)
    if not wl:
        return 0
    R = ctx.prop + '.W'
    r = results(repo, ctx.hash, no_cache)
    if 'error' in r:
        ctx.inconclusive(R, 'witness crate: %s %s' % (r['error'], r.get('tail', '')[-300:]))
        return 0
    res = r['results']
    for wid, rule, clause in wl:
        w, t = res.get('W_' + wid), res.get('T_' + wid)
        where = 'witness/src/lib.rs:W_%s' % wid
        if t is None or t['status'] != 'ok':
            ctx.inconclusive(R, 'twin T_%s (the compiling half of the pair) does not compile: the API changed shape (%s)' % (
                wid, (t or {}).get('detail', 'missing')[:200]))
            continue
        if w is None:
            if ('W_' + wid) in open(os.path.join(HERE, 'witness', 'src', 'lib.rs')).read():
                ctx.inconclusive(R, 'witness W_%s produced no result' % wid)
            else:
                ctx.ok(R, '[%s] %s: twin compiles (twin-only witness)' % (rule, clause), where)
            continue
        if w['status'] == 'ok':
            ctx.ok(R, '[%s] %s: the violating program is rejected by rustc with the expected error code; its twin compiles' % (rule, clause), where)
        elif w.get('compiled'):
            ctx.violation(R, 'W_' + wid, '[%s] type-level clause broken — %s: the violating program now COMPILES' % (rule, clause), where)
        else:
            ctx.inconclusive(R, 'witness W_%s fails to compile for another reason than expected: %s' % (wid, w.get('detail', '')[:200]))
    return len(wl)
