"""Canonical BitBoard-algebra form of origin expressions.

Turns resolved operator-impl calls and Board accessors into a small algebra so that sibling
computations can be compared modulo commutativity/associativity and accessor-vs-field spelling:

  ('bb', op, (args...))        op in & | ^   (flattened, sorted)
  ('bbnot', a)  ('bb0',)  ('bball',)  ('single', sq)  ('lowest', a)  ('popcnt', a)
  ('pieces', obj, piece)  ('cc', obj, colour)  ('combined', obj)
  ('cnot', colour)             colour negation, involutive
  ('bbeq', a, b) ('bbne', a, b)
"""
from .expr import walk, norm

OPS = {'bitand': '&', 'bitor': '|', 'bitxor': '^'}
BOARD = 'board::Board'


def _op_of(callee):
    # <T as core::ops::bit::BitAnd<..>>::bitand  with T = BitBoard or &BitBoard
    if 'bitboard::BitBoard' in callee and callee.startswith('<') and ' as core::ops::bit::' in callee:
        name = callee.rsplit('::', 1)[1]
        if name in OPS:
            return OPS[name]
        if name == 'not':
            return '~'
    return None


_AN = [None]
_IL = {}
_depth = [0]
_NO_INLINE = {'movegen::movegen::MoveGen::enumerate_moves'}     # anchors that rules need to see as calls


def bb(e, an=None):
    """canonical form; `an` (an Analyzer with effects) lets field reads look through calls that cannot
    write the field"""
    if an is not None:
        _AN[0] = an
    e = norm(e)
    return _bb(e)


def fstate(o, fld):
    """state of field `fld` of Board object o (looking through updates of other fields)"""
    from .expr import mk_field
    r = mk_field(o, fld, _AN[0])
    if r == ('field', o, fld):
        return r
    # the read went through an update / a named merge value: canonicalise what it found
    return _bb(norm(r))


def _key(x):
    return repr(x)


def mk(op, args):
    flat = []
    for a in args:
        if isinstance(a, tuple) and a and a[0] == 'bb' and a[1] == op:
            flat.extend(a[2])
        else:
            flat.append(a)
    if op == '^':
        # x ^ x = 0
        out = []
        for a in flat:
            if a in out:
                out.remove(a)
            else:
                out.append(a)
        flat = [a for a in out if a != ('bb0',)]
        if not flat:
            return ('bb0',)
    if op == '|':
        flat = [a for a in dict.fromkeys(flat) if a != ('bb0',)]
        if not flat:
            return ('bb0',)
    if op == '&':
        flat = list(dict.fromkeys(flat))
        if ('bb0',) in flat:
            return ('bb0',)
        flat = [a for a in flat if a != ('bball',)] or [('bball',)]
    if len(flat) == 1:
        return flat[0]
    return ('bb', op, tuple(sorted(flat, key=_key)))


def cnot(c):
    if isinstance(c, tuple) and c and c[0] == 'cnot':
        return c[1]
    if isinstance(c, tuple) and c and c[0] == 'enum' and c[1] == 'color::Color':
        return ('enum', 'color::Color', 'Black' if c[2] == 'White' else 'White')
    return ('cnot', c)


def _bb(e):
    if not isinstance(e, tuple) or not e:
        return e
    t = e[0]
    if t == 'int' and e[2] == 'bitboard::BitBoard':
        if e[1] == 0:
            return ('bb0',)
        if e[1] == (1 << 64) - 1:
            return ('bball',)
        return e
    if t == 'agg' and e[1] == 'bitboard::BitBoard' and len(e[3]) == 1 and e[3][0][1][0] == 'int':
        v = e[3][0][1][1]
        return ('bb0',) if v == 0 else (('bball',) if v == (1 << 64) - 1 else e)
    if t == 'call':
        callee = e[1]
        args = [_bb(a) for a in e[2]]
        op = _op_of(callee)
        if op == '~':
            a = args[0]
            if a == ('bb0',):
                return ('bball',)
            if isinstance(a, tuple) and a[0] == 'bbnot':
                return a[1]
            return ('bbnot', a)
        if op:
            return mk(op, args)
        if callee == '<color::Color as core::ops::bit::Not>::not':
            return cnot(args[0])
        if callee == 'board::Board::pieces':
            return ('pieces', fstate(obj_of(args[0]), 'pieces'), args[1])
        if callee == 'board::Board::color_combined':
            return ('cc', fstate(obj_of(args[0]), 'color_combined'), args[1])
        if callee == 'board::Board::combined':
            return fstate(obj_of(args[0]), 'combined')
        if callee == 'board::Board::side_to_move':
            return fstate(obj_of(args[0]), 'side_to_move')
        if callee == 'board::Board::checkers':
            return fstate(obj_of(args[0]), 'checkers')
        if callee == 'board::Board::pinned':
            return fstate(obj_of(args[0]), 'pinned')
        if callee == 'board::Board::en_passant':
            return fstate(obj_of(args[0]), 'en_passant')
        if callee == 'board::Board::king_square':
            return ('lowest', mk('&', [('pieces', fstate(obj_of(args[0]), 'pieces'), ('enum', 'piece::Piece', 'King')), ('cc', fstate(obj_of(args[0]), 'color_combined'), args[1])]))
        if callee == 'bitboard::BitBoard::from_square':
            return ('single', args[0])
        if callee == 'bitboard::BitBoard::to_square':
            return ('lowest', args[0])
        if callee == 'bitboard::BitBoard::popcnt':
            return ('popcnt', args[0])
        if callee == '<bitboard::BitBoard as core::cmp::PartialEq>::eq':
            return ('bbeq',) + tuple(sorted(args, key=_key))
        if callee in ('core::cmp::PartialEq::ne', '<bitboard::BitBoard as core::cmp::PartialEq>::ne') and \
                e[3] and 'bitboard::BitBoard' in str(e[3][0]):
            return ('bbne',) + tuple(sorted(args, key=_key))
        # a private pure helper of the crate (`fn their_pieces(&self) -> &BitBoard`, `fn their_sliders(board, piece)`):
        # canonicalise its body instead of the call
        an = _AN[0]
        if an is not None and callee in an.facts.bodies and not (an.facts.fns.get(callee) or {}).get('pub', True) and \
                callee not in _NO_INLINE and _depth[0] < 3:
            from .inline import Inliner
            il = _IL.get(id(an))
            if il is None:
                il = _IL[id(an)] = Inliner(an)
            if il.inlinable(callee) and all(a[0] != 'ref' for a in e[2]):
                sm = an.summary(callee)
                r = il.subst(sm.ret, e[2], il.param_types(callee))
                if not any(isinstance(x, tuple) and x and x[0] == 'unk' for x in walk(r)):
                    _depth[0] += 1
                    try:
                        return _bb(norm(r))
                    finally:
                        _depth[0] -= 1
        return ('call', callee, tuple(args), ())     # generic arguments are dropped in the canonical form
    if t == 'mem' and e[1][0] == 'h':
        # dereference of a reference returned by an accessor: the accessor mapping already yields the value
        return _bb(e[1][1])
    if t == 'after' and len(e) >= 6 and e[5] == 1 and 'bitboard::BitBoard as core::ops::bit::Bit' in e[2] and e[2].endswith('_assign'):
        op = {'bitand_assign': '&', 'bitor_assign': '|', 'bitxor_assign': '^'}.get(e[2].rsplit('::', 1)[1])
        if op and len(e[4]) == 2:
            return mk(op, [_bb(e[3]), _bb(e[4][1])])
    if t == 'field':
        base = _bb(e[1])
        return fstate(base, e[2])
    return tuple(_bb(x) if isinstance(x, tuple) else x for x in e)


def obj_of(a):
    """object denoted by a receiver argument: ('param', n) is a pointer to ('mem', ('p', n))"""
    if isinstance(a, tuple) and a and a[0] == 'param':
        return ('mem', ('p', a[1]))
    return a


def ptr_of(o):
    if isinstance(o, tuple) and o and o[0] == 'mem' and o[1][0] == 'p':
        return ('param', o[1][1])
    return o
