"""Type-based write effects: which (ADT, field) locations a function may write, transitively.

A function writes (A, f) when it assigns to a place whose projection passes through field f of A,
takes a `&mut`/raw-mut borrow of such a place, or calls a function that does.  A store to a whole
value of ADT type A through a dereference is recorded as (A, '*').  Sound for code without pointer
casts between the tracked types (the unsafe inventory is checked separately)."""


def _place_fields(p):
    out = []
    for e in p['p']:
        if isinstance(e, dict) and 'f' in e and 'adt' in e:
            out.append((e['adt'], e['n']))
    return out


class Effects:
    def __init__(self, facts):
        self.facts = facts
        self.direct = {}
        self.callees = {}
        self.trait_impls = {}
        for imp in facts.impls:
            if 'trait_def' in imp:
                for it in imp['items']:
                    name = it.rsplit('::', 1)[-1]
                    self.trait_impls.setdefault((imp['trait_def'], name), []).append(it)
        for key, body in facts.bodies.items():
            w = set()
            cs = set()
            for bi in body.reachable():
                b = body.blocks[bi]
                for s in b['stmts']:
                    if s['k'] != 'assign':
                        continue
                    pl = s['pl']
                    fs = _place_fields(pl)
                    if fs:
                        w.update(fs)
                    elif '*' in pl['p']:
                        adt = self._pointee_adt(body, pl)
                        if adt:
                            w.add((adt, '*'))
                    elif not pl['p']:
                        # whole-local store of an ADT value is a write of all its fields on that local
                        pass
                    rv = s['rv']
                    if rv['rv'] in ('ref', 'rawptr') and rv['bk'] == 'mut':
                        fs = _place_fields(rv['pl'])
                        w.update(fs)
                t = b['term']
                if t['k'] == 'call':
                    c = t.get('callee')
                    if c:
                        cs.add((c, t.get('decl'), bool(t.get('resolved'))))
                    fs = _place_fields(t['dest'])
                    w.update(fs)
            # closures defined inside are part of the function
            self.direct[key] = w
            self.callees[key] = cs
        for key in list(facts.bodies):
            if '::{closure#' in key:
                parent = key.split('::{closure#')[0]
                if parent in self.direct:
                    self.direct[parent] |= self.direct[key]
                    self.callees[parent] |= self.callees[key]
        self._trans = {}

    def _pointee_adt(self, body, pl):
        l = body.locals[pl['l']]
        return l.get('adt')

    def targets(self, callee, decl, resolved):
        """crate-local bodies a call may reach"""
        if callee in self.facts.bodies:
            return [callee]
        if decl and not resolved:
            # trait method on a type parameter: every impl in the crate
            if '::' in decl:
                tr, name = decl.rsplit('::', 1)
                return [k for k in self.trait_impls.get((tr, name), []) if k in self.facts.bodies] + \
                       ([decl] if decl in self.facts.bodies else [])
        return []

    def reach(self, key):
        """transitive closure of crate-local callees (including key)"""
        seen = {key}
        st = [key]
        while st:
            k = st.pop()
            for (c, d, r) in self.callees.get(k, ()):
                for t in self.targets(c, d, r):
                    if t not in seen:
                        seen.add(t)
                        st.append(t)
        return seen

    def writes(self, key):
        if key not in self._trans:
            w = set()
            for k in self.reach(key):
                w |= self.direct.get(k, set())
            self._trans[key] = w
        return self._trans[key]

    def may_write_field(self, callee, name):
        if callee not in self.facts.bodies:
            ts = [t for (c, d, r) in [(callee, callee, False)] for t in self.targets(c, d, r)]
            if not ts:
                return True  # unknown external callee given a `&mut`: assume anything
            return any(self.may_write_field(t, name) for t in ts)
        for (adt, f) in self.writes(callee):
            if f == name:
                return True
            if f == '*':
                a = self.facts.adts.get(adt)
                if a is None or any(fl['name'] == name for v in a['variants'] for fl in v['fields']):
                    return True
        return False

    def field_writers(self, adt, field):
        """functions that directly write (adt, field) (or the whole adt through a pointer)"""
        out = []
        for k, w in self.direct.items():
            if '::{closure#' in k or '::{promoted#' in k:
                continue
            if (adt, field) in w or (adt, '*') in w:
                out.append(k)
        return sorted(out)
