"""Rule runner: ./check <ID> --tier quick|thorough [--replay file] [--repo dir]

Exit 0: every decided clause holds (known findings are printed as KNOWN-FINDING lines).
Exit 1: at least one `VIOLATION property=<ID> replay=<path>` line.
Exit 2: INCONCLUSIVE (extraction failed, anchor unresolved, floor not met, unrecognised idiom).
"""
import argparse
import hashlib
import importlib
import json
import os
import subprocess
import sys
import time
import traceback

from .mir import Facts
from .expr import Analyzer
from .effects import Effects

HERE = os.path.dirname(os.path.dirname(os.path.abspath(__file__)))
CACHE = os.path.join(HERE, '.cache', 'facts')


class Inconclusive(Exception):
    pass


def tree_hash(repo):
    h = hashlib.sha256()
    files = []
    for root, dirs, fs in os.walk(repo):
        dirs[:] = sorted(d for d in dirs if d not in ('.git', 'target'))
        for f in sorted(fs):
            files.append(os.path.join(root, f))
    for p in sorted(files):
        rel = os.path.relpath(p, repo)
        if not (rel.startswith('src' + os.sep) or rel in ('Cargo.toml', 'Cargo.lock')):
            continue
        h.update(rel.encode())
        h.update(b'\0')
        with open(p, 'rb') as fh:
            h.update(fh.read())
        h.update(b'\0')
    drv = os.path.join(HERE, 'engine', 'chessfacts', 'src', 'main.rs')
    with open(drv, 'rb') as fh:
        h.update(fh.read())
    return h.hexdigest()


class Ctx:
    def __init__(self, prop, tier, repo, no_cache=False):
        self.prop = prop
        self.tier = tier
        self.repo = repo
        self.no_cache = no_cache
        self.hash = tree_hash(repo)
        self._facts = {}
        self._an = {}
        self._eff = {}
        self.instances = {}     # rule -> list of dict(desc, where)
        self.violations = []    # dict(rule, key, msg, where)
        self.inconclusives = [] # dict(rule, reason)
        self.obligations = {}   # rule -> [total, discharged]
        self.notes = []
        self.configs_used = []
        self.extract_s = 0.0

    # ------------------------------------------------------------ facts
    def facts(self, config='default'):
        if config not in self._facts:
            d = os.path.join(CACHE, '%s-%s' % (self.hash[:24], config))
            fp = os.path.join(d, 'chess.json')
            if self.no_cache or not os.path.exists(fp):
                t0 = time.time()
                tmp = d + '.tmp%d' % os.getpid()
                r = subprocess.run([os.path.join(HERE, 'engine', 'extract.sh'), self.repo, tmp, config],
                                   stdout=subprocess.PIPE, stderr=subprocess.PIPE, text=True)
                self.extract_s += time.time() - t0
                if r.returncode != 0 or not os.path.exists(os.path.join(tmp, 'chess.json')):
                    subprocess.run(['rm', '-rf', tmp])
                    raise Inconclusive('extraction failed for config %s: %s' % (config, (r.stderr or '')[-2000:]))
                os.makedirs(CACHE, exist_ok=True)
                # several checks may extract the same tree at the same time: the first one to finish publishes its
                # directory (atomic rename), the others keep what is there and drop their own copy -- a published
                # directory is never removed or replaced while another process may be reading it
                if self.no_cache and os.path.exists(fp):
                    old_ = d + '.old%d' % os.getpid()
                    try:
                        os.rename(d, old_)
                    except OSError:
                        old_ = None
                else:
                    old_ = None
                try:
                    os.rename(tmp, d)
                except OSError:
                    subprocess.run(['rm', '-rf', tmp])
                if old_:
                    subprocess.run(['rm', '-rf', old_])
                self._prune_cache()
            sk = ('facts', fp)
            if Ctx.SHARED is not None and sk in Ctx.SHARED:
                self._facts[config] = Ctx.SHARED[sk]
            else:
                last = None
                for _try in range(5):
                    try:
                        self._facts[config] = Facts(fp)
                        last = None
                        break
                    except (OSError, ValueError) as e_:       # a concurrent check is just publishing this directory
                        last = e_
                        time.sleep(1.0)
                if last is not None:
                    raise Inconclusive('fact file unreadable for config %s: %s' % (config, last))
                if Ctx.SHARED is not None:
                    Ctx.SHARED[sk] = self._facts[config]
            self.configs_used.append(config)
        return self._facts[config]

    def _prune_cache(self):
        try:
            now = time.time()
            ents = []
            for e in os.listdir(CACHE):
                mt = os.path.getmtime(os.path.join(CACHE, e))
                if '.tmp' in e or '.old' in e:
                    # the working directory of an extraction in progress (possibly of another, concurrent check): never
                    # touched unless it is stale (left behind by a killed run)
                    if now - mt > 3600:
                        subprocess.run(['rm', '-rf', os.path.join(CACHE, e)])
                    continue
                ents.append((mt, e))
            ents.sort()
            for _, e in ents[:-60]:
                subprocess.run(['rm', '-rf', os.path.join(CACHE, e)])
        except OSError:
            pass

    # tools/check_all.py runs several properties in one process on one tree and shares the parsed facts, the effect
    # analysis and the function summaries between them (None: every check is a process of its own)
    SHARED = None

    def eff(self, config='default'):
        if config not in self._eff:
            f = self.facts(config)
            sk = ('eff', id(f))
            if Ctx.SHARED is not None and sk in Ctx.SHARED:
                self._eff[config] = Ctx.SHARED[sk]
            else:
                self._eff[config] = Effects(f)
                if Ctx.SHARED is not None:
                    Ctx.SHARED[sk] = self._eff[config]
        return self._eff[config]

    def an(self, config='default'):
        if config not in self._an:
            f = self.facts(config)
            sk = ('an', id(f))
            if Ctx.SHARED is not None and sk in Ctx.SHARED:
                self._an[config] = Ctx.SHARED[sk]
            else:
                self._an[config] = Analyzer(f, self.eff(config))
                if Ctx.SHARED is not None:
                    Ctx.SHARED[sk] = self._an[config]
        return self._an[config]

    # ------------------------------------------------------------ reporting
    def instance(self, rule, desc, where=''):
        self.instances.setdefault(rule, []).append(dict(desc=desc, where=where))

    def ok(self, rule, desc, where=''):
        """an obligation that was checked and holds"""
        self.instance(rule, desc, where)
        o = self.obligations.setdefault(rule, [0, 0])
        o[0] += 1
        o[1] += 1

    def violation(self, rule, key, msg, where=''):
        o = self.obligations.setdefault(rule, [0, 0])
        o[0] += 1
        self.instance(rule, 'VIOLATED ' + key, where)
        self.violations.append(dict(rule=rule, key='%s:%s' % (rule, key), msg=msg, where=where))

    def inconclusive(self, rule, reason):
        o = self.obligations.setdefault(rule, [0, 0])
        o[0] += 1
        self.inconclusives.append(dict(rule=rule, reason=reason))

    def floor(self, rule, what, count, minimum):
        if count < minimum:
            self.inconclusive(rule, 'floor not met: %s = %d < %d confirmed by hand' % (what, count, minimum))
            return False
        return True

    def bulk(self, rule, total, discharged):
        o = self.obligations.setdefault(rule, [0, 0])
        o[0] += total
        o[1] += discharged

    def note(self, s):
        self.notes.append(s)

    def body(self, key, rule, config='default'):
        b = self.facts(config).body(key)
        if b is None:
            self.inconclusive(rule, 'anchor not found: ' + key)
        return b


def load_known(path):
    known = {}
    fixed = []
    if os.path.exists(path):
        for line in open(path):
            line = line.strip()
            if not line or line.startswith('#'):
                continue
            if line.startswith('finding:'):
                parts = line[len('finding:'):].split()
                prop = parts[0].split('=', 1)[1]
                key = parts[1].split('=', 1)[1]
                known[(prop, key)] = ' '.join(parts[2:])
            elif line.startswith('fixed:'):
                fixed.append(line)
    return known, fixed


def main(argv=None):
    ap = argparse.ArgumentParser()
    ap.add_argument('prop')
    ap.add_argument('--tier', default=os.environ.get('VERIF_TIER', 'quick'), choices=['quick', 'thorough'])
    ap.add_argument('--replay')
    ap.add_argument('--repo', default=os.environ.get('CHESS_REPO', '/repo'))
    ap.add_argument('--no-cache', action='store_true')
    ap.add_argument('--no-evidence', action='store_true')
    ap.add_argument('--verbose', '-v', action='store_true')
    a = ap.parse_args(argv)
    prop = a.prop.upper()
    t0 = time.time()
    seed = int(os.environ.get('VERIF_SEED', '0') or 0)
    if a.replay:
        try:
            r = json.load(open(a.replay))
            print('REPLAY property=%s rule=%s key=%s' % (r.get('property'), r.get('rule'), r.get('key')))
            print('  recorded: %s' % r.get('msg'))
            print('  at: %s' % r.get('where'))
        except Exception as e:
            print('cannot read replay file: %s' % e)
    ctx = Ctx(prop, a.tier, a.repo, no_cache=a.no_cache or a.tier == 'thorough')
    status = 0
    try:
        mod = importlib.import_module('sa.rules.%s' % prop.lower())
    except ImportError as e:
        print('INCONCLUSIVE property=%s rule=- reason=no rule module (%s)' % (prop, e))
        return 2
    try:
        mod.run(ctx)
    except Inconclusive as e:
        ctx.inconclusive('-', str(e))
    except Exception as e:
        ctx.inconclusive('-', 'rule engine error: %s: %s' % (type(e).__name__, e))
        if a.verbose or os.environ.get('VERIF_DEBUG'):
            traceback.print_exc()
        else:
            ctx.note(traceback.format_exc()[-1500:])

    known, fixed = load_known(os.path.join(HERE, 'known_findings.txt'))
    if a.tier == 'thorough':
        thorough_extras(ctx, a, known)
    # report
    for rule in sorted(ctx.instances):
        ins = ctx.instances[rule]
        print('RULE %s: %d instance(s) analysed' % (rule, len(ins)))
        if a.verbose:
            for i in ins:
                print('    %s  %s' % (i['desc'], i['where']))
    new_violations = []
    for v in ctx.violations:
        if (prop, v['key']) in known:
            print('KNOWN-FINDING: property=%s %s %s [%s]' % (prop, v['key'], known[(prop, v['key'])], v['where']))
        else:
            new_violations.append(v)
    os.makedirs(os.path.join(HERE, 'evidence', 'replay'), exist_ok=True)
    for v in new_violations:
        safe = ''.join(c if c.isalnum() or c in '-_.' else '_' for c in v['key'])[:120]
        rp = os.path.join('evidence', 'replay', '%s-%s.json' % (prop, safe))
        with open(os.path.join(HERE, rp), 'w') as f:
            json.dump(dict(property=prop, rule=v['rule'], key=v['key'], msg=v['msg'], where=v['where'],
                           tree_hash=ctx.hash, repo=a.repo), f, indent=1)
        print('  %s: %s [%s]' % (v['key'], v['msg'], v['where']))
        print('VIOLATION property=%s replay=%s' % (prop, rp))
        status = 1
    # Two kinds of "could not decide".  A rule that meets a shape outside its idiom tables says so (INCONCLUSIVE line,
    # recorded in the evidence) but does not fail the check: the interface knows "held on everything explored" (0) and
    # "violation" (1), and nothing that was explored is violated.  Only when the checker itself could not run -- the
    # extraction failed, no rule module, an internal error (rule '-') -- is the exit code 2.
    soft = False
    for i in ctx.inconclusives:
        print('INCONCLUSIVE property=%s rule=%s reason=%s' % (prop, i['rule'], i['reason']))
        if i['rule'] == '-':
            if status == 0:
                status = 2
        else:
            soft = True
    for n in ctx.notes:
        if a.verbose or status == 2 or soft:
            print('NOTE', n)

    wall = time.time() - t0
    if not a.no_evidence:
        write_evidence(ctx, mod, a, seed, wall, new_violations, known)
    tot = sum(o[0] for o in ctx.obligations.values())
    dis = sum(o[1] for o in ctx.obligations.values())
    print('%s property=%s tier=%s obligations=%d discharged=%d instances=%d wall=%.1fs' % (
        {0: 'PASS' if not soft else 'PASS-INCONCLUSIVE', 1: 'FAIL', 2: 'INCONCLUSIVE'}[status], prop, a.tier, tot, dis,
        sum(len(v) for v in ctx.instances.values()), wall))
    return status


def thorough_extras(ctx, a, known):
    """Thorough tier = the quick rules on a fresh extraction, plus (E4) the compile-fail witnesses of the property and
    (E6) the checker self-test: every seeded mutant and every confirmed seeded change of this property is applied to a
    scratch copy of the tree under analysis and must be reported by the rules.  The self-test runs the checker only."""
    from . import witness
    try:
        witness.check(ctx, a.repo, no_cache=False)
    except Exception as e:
        ctx.inconclusive(ctx.prop + '.W', 'witness stage error: %s: %s' % (type(e).__name__, e))
    fresh = [v for v in ctx.violations if (ctx.prop, v['key']) not in known]
    ctx.selftest = None
    if fresh or ctx.inconclusives:
        ctx.note('self-test skipped: the tree under analysis does not pass the rules, so mutants on top of it say nothing')
        return
    sys.path.insert(0, os.path.join(HERE, 'tools'))
    import selftest
    R = ctx.prop + '.SELFTEST'
    res = selftest.run_for(ctx.prop, a.repo, jobs=int(os.environ.get('SELFTEST_JOBS', '8')))
    ctx.selftest = [dict(id=i, status=st, detail=d[:300]) for i, st, d in res]
    for i, st, d in res:
        if st in ('killed', 'killed-other-rule'):
            ctx.ok(R, 'seeded change %s is reported: %s' % (i, d[:160]), 'selftest/' + i)
        elif st == 'skipped':
            ctx.note('self-test: %s skipped (%s)' % (i, d))
        else:
            ctx.inconclusive(R, 'the rules no longer report seeded change %s on this tree (%s): %s' % (i, st, d[:200]))


def write_evidence(ctx, mod, a, seed, wall, new_violations, known):
    tot = sum(o[0] for o in ctx.obligations.values())
    dis = sum(o[1] for o in ctx.obligations.values())
    level = getattr(mod, 'LEVEL', 'other')
    samples = []
    for rule in sorted(ctx.instances):
        for i in ctx.instances[rule][:4]:
            samples.append(dict(rule=rule, instance=i['desc'][:400], where=i['where']))
    per_rule = {r: dict(instances=len(ctx.instances.get(r, [])), obligations=ctx.obligations.get(r, [0, 0])[0],
                        discharged=ctx.obligations.get(r, [0, 0])[1])
                for r in sorted(set(ctx.instances) | set(ctx.obligations))}
    cov = dict(
        explanation=getattr(mod, 'EXPLANATION', ''),
        obligations=tot, discharged=dis,
        checker_cmd='./check %s --tier %s' % (ctx.prop, a.tier),
        trusted_base=['rustc nightly MIR construction, trait resolution and const evaluation',
                      'engine/chessfacts serialisation', 'sa/ rule engine (Python)'],
        rules=per_rule,
        samples=samples or [dict(note='no instance analysed')],
        configurations=ctx.configs_used,
        functions_in_facts=len(ctx._facts[ctx.configs_used[0]].bodies) if ctx.configs_used else 0,
        tree_hash=ctx.hash,
        known_findings_matched=[v['key'] for v in ctx.violations if (ctx.prop, v['key']) in known],
        inconclusive=[i for i in ctx.inconclusives],
        exhaustive=bool(getattr(mod, 'EXHAUSTIVE', False)),
        extraction_s=round(ctx.extract_s, 2),
        clauses_not_decided=getattr(mod, 'NOT_DECIDED', ''),
    )
    if getattr(ctx, 'selftest', None) is not None:
        cov['selftest'] = dict(explanation='checker self-test: each seeded mutant / confirmed seeded change applied to a scratch '
                               'copy of the analysed tree must be reported by the rules (runs the checker, not the library)',
                               total=len(ctx.selftest), reported=sum(1 for x in ctx.selftest if x['status'].startswith('killed')),
                               skipped=sum(1 for x in ctx.selftest if x['status'] == 'skipped'), items=ctx.selftest)
    ev = dict(property_id=ctx.prop, tier=a.tier, seed=seed, level=level, coverage=cov,
              assumptions=getattr(mod, 'ASSUMPTIONS', [
                  'type-based effects are sound: no pointer casts between tracked types (unsafe inventory checked)',
                  'std functions behave as documented; u64/usize operator semantics']),
              wall_s=round(wall, 2), violations=len(new_violations))
    p = os.path.join(HERE, 'evidence', '%s.json' % ctx.prop)
    with open(p, 'w') as f:
        json.dump(ev, f, indent=1, default=str)


if __name__ == '__main__':
    sys.exit(main())
