"""Substitution, constant folding (sparse conditional constant propagation on origin expressions),
inlining of accessor-like crate functions and finite-map extraction.

Folding is applied to expressions over constants of the small enums (Color, Piece, Rank, File,
CastleRights, bool) and machine integers only; it is the textbook compiler analysis and never
touches Squares-as-sets, BitBoards of positions, strings or boards."""
from .expr import mk_field, mk_index, mk_ite, mk_constref, mk_variant, is_unk, walk

MASK = {'u8': 0xff, 'u16': 0xffff, 'u32': 0xffffffff, 'u64': (1 << 64) - 1, 'usize': (1 << 64) - 1,
        'bool': 1, 'isize': (1 << 64) - 1, 'i8': 0xff, 'i16': 0xffff, 'i32': 0xffffffff, 'i64': (1 << 64) - 1,
        'char': 0xffffffff}


def _int(e):
    return e[1] if isinstance(e, tuple) and e and e[0] == 'int' else None


def deref_value(a):
    """the value a pointer-like argument expression points to (None if state dependent)"""
    if a[0] == 'constref':
        return a[1]
    if a[0] == 'param':
        return ('mem', ('p', a[1]))
    if a[0] == 'ref':
        return None
    # a bare value where a shared reference is expected: the expression was normalised
    # (reference wrappers stripped); the value itself is the pointee
    return a


class Inliner:
    def __init__(self, an, max_depth=6):
        self.an = an
        self.facts = an.facts
        self.max_depth = max_depth
        self._pure = {}

    # ------------------------------------------------------------------ purity / eligibility
    def inlinable(self, key):
        if key in self._pure:
            return self._pure[key]
        self._pure[key] = False  # recursion guard
        s = self.an.summary(key)
        ok = False
        if s is not None and s.ret is not None and not s.cfg.loops():
            ok = True
            # no writes to memory reachable from parameters
            for r, v in s.final.items():
                if r[0] == 'p' and v != ('mem', r):
                    ok = False
            for st in s.stores:
                if st['target'][1][0] in ('p', 'h'):
                    ok = False
            if any(x[0] in ('unk', 'phi', 'loop') for x in walk(s.ret)):
                ok = False
        self._pure[key] = ok
        return ok

    # ------------------------------------------------------------------ substitution
    def typed(self, v, ty):
        """annotate a substituted argument with the callee's parameter type (a crate ADT) so that later
        range reasoning knows e.g. that it is a Rank or a Square"""
        if ty is None or v is None or not isinstance(v, tuple):
            return v
        if v[0] in ('enum', 'int', 'typed', 'agg', 'ite', 'unk'):
            return v
        return ('typed', ty, v)

    def subst(self, e, args, ptys=None):
        """replace ('param', n) and ('mem', ('p', n)) by the caller's argument expressions"""
        if not isinstance(e, tuple) or not e:
            return e
        t = e[0]
        if t == 'param':
            if e[1] - 1 >= len(args):
                return ('unk', 'param')
            a = args[e[1] - 1]
            ty = ptys[e[1] - 1] if ptys and e[1] - 1 < len(ptys) else None
            if ty is not None and not ty[1]:
                return self.typed(a, ty[0])
            return a
        if t == 'mem':
            r = e[1]
            if r[0] == 'p':
                a = args[r[1] - 1] if r[1] - 1 < len(args) else None
                v = deref_value(a) if a is not None else None
                if v is None:
                    return ('unk', 'deref-arg')
                ty = ptys[r[1] - 1] if ptys and r[1] - 1 < len(ptys) else None
                if ty is not None and ty[1]:
                    return self.typed(v, ty[0])
                return v
            return ('mem', (r[0], self.subst(r[1], args, ptys)))
        return self.rebuild(t, e, lambda x: self.subst(x, args, ptys))

    def param_types(self, callee):
        """per parameter: (ADT path, is_reference) when the parameter is (a reference to) a crate ADT, else None"""
        fn = self.facts.fns.get(callee)
        if not fn:
            return None
        out = []
        for t in fn['inputs']:
            isref = t.startswith('&')
            base = t.lstrip('&')
            if base.startswith('mut '):
                base = base[4:]
            out.append((base, isref) if base in self.facts.adts else None)
        return out

    def rebuild(self, t, e, f):
        if t == 'typed':
            return ('typed', e[1], f(e[2]))
        if t == 'field':
            return mk_field(f(e[1]), e[2], self.an)
        if t == 'index':
            return mk_index(f(e[1]), f(e[2]), self.an)
        if t == 'variant':
            return mk_variant(f(e[1]), e[2])
        if t == 'constref':
            return mk_constref(f(e[1]))
        if t == 'call':
            return ('call', e[1], tuple(f(a) for a in e[2]), e[3], e[4] if len(e) > 4 else None)
        if t == 'ite':
            return mk_ite(f(e[1]), tuple((v, f(x)) for v, x in e[2]))
        if t == 'agg':
            return ('agg', e[1], e[2], tuple((n, f(x)) for n, x in e[3]))
        if t in ('tuple', 'array'):
            return (t, tuple(f(x) for x in e[1]))
        if t == 'closure':
            return ('closure', e[1], tuple(f(x) for x in e[2]))
        if t in ('bin',):
            return ('bin', e[1], f(e[2]), f(e[3]))
        if t in ('un',):
            return ('un', e[1], f(e[2]))
        if t == 'cast':
            return ('cast', f(e[1]), e[2])
        if t == 'discr':
            return ('discr', f(e[1]))
        if t == 'upd':
            return ('upd', f(e[1]), e[2], f(e[3]))
        if t == 'updidx':
            return ('updidx', f(e[1]), f(e[2]), f(e[3]))
        if t == 'after':
            return ('after', e[1], e[2], f(e[3]), tuple(f(a) for a in e[4]), e[5])
        if t == 'repeat':
            return ('repeat', f(e[1]), e[2])
        if t == 'mem' and isinstance(e[1], tuple) and e[1] and e[1][0] == 'h':
            inner = f(e[1][1])
            if isinstance(inner, tuple) and inner and inner[0] == 'constref':
                return inner[1]                # *(&v) = v
            return ('mem', ('h', inner))
        return e

    # ------------------------------------------------------------------ folding
    def fold(self, e):
        if not isinstance(e, tuple) or not e:
            return e
        t = e[0]
        if t in ('int', 'enum', 'str', 'param', 'mem', 'unit', 'fn', 'constdef', 'unk', 'loop', 'ref', 'zst', 'never'):
            if t == 'constdef':
                return self.const_value(e)
            return e
        if t == 'typed':
            inner = self.fold(e[2])
            if inner[0] in ('enum', 'int', 'agg', 'typed', 'ite'):
                return inner
            return ('typed', e[1], inner)
        e = self.rebuild(t, e, self.fold)
        t = e[0]
        if t == 'discr':
            v = e[1]
            if v[0] == 'enum':
                d = self.facts.enum_discr(v[1], v[2])
                if d is not None:
                    return ('int', d, 'isize')
            if v[0] == 'agg':
                d = self.facts.enum_discr(v[1], v[2])
                if d is not None:
                    return ('int', d, 'isize')
        if t == 'cast':
            v = e[1]
            i = _int(v)
            if i is not None and e[2] in MASK:
                return ('int', i & MASK[e[2]], e[2])
            if v[0] == 'enum':
                d = self.facts.enum_discr(v[1], v[2])
                if d is not None and e[2] in MASK:
                    return ('int', d & MASK[e[2]], e[2])
        if t == 'bin':
            a, b = _int(e[2]), _int(e[3])
            if a is not None and b is not None:
                ty = e[2][2]
                m = MASK.get(ty, (1 << 64) - 1)
                op = e[1]
                r = None
                if op in ('BitAnd',):
                    r = a & b
                elif op == 'BitOr':
                    r = a | b
                elif op == 'BitXor':
                    r = a ^ b
                elif op in ('Add', 'AddUnchecked'):
                    r = a + b
                    if r > m:
                        return ('overflow', op, e[2], e[3])
                elif op in ('Sub', 'SubUnchecked'):
                    r = a - b
                    if r < 0:
                        return ('overflow', op, e[2], e[3])
                elif op in ('Mul',):
                    r = a * b
                    if r > m:
                        return ('overflow', op, e[2], e[3])
                elif op == 'Rem' and b != 0:
                    r = a % b
                elif op == 'Div' and b != 0:
                    r = a // b
                elif op in ('Shl', 'ShlUnchecked'):
                    r = (a << b) & m
                elif op in ('Shr', 'ShrUnchecked'):
                    r = a >> b
                elif op in ('Eq', 'Ne', 'Lt', 'Le', 'Gt', 'Ge'):
                    r = {'Eq': a == b, 'Ne': a != b, 'Lt': a < b, 'Le': a <= b, 'Gt': a > b, 'Ge': a >= b}[op]
                    return ('int', int(r), 'bool')
                if r is not None:
                    return ('int', r & m, ty)
            if e[1] in ('Eq', 'Ne') and e[2][0] == 'enum' and e[3][0] == 'enum' and e[2][1] == e[3][1]:
                eq = e[2][2] == e[3][2]
                return ('int', int(eq if e[1] == 'Eq' else not eq), 'bool')
        if t == 'un':
            a = _int(e[2])
            if a is not None and e[1] == 'Not':
                ty = e[2][2]
                if ty == 'bool':
                    return ('int', 1 - a, 'bool')
                return ('int', (~a) & MASK.get(ty, (1 << 64) - 1), ty)
        if t == 'ite':
            c = e[1]
            ci = _int(c)
            if ci is None and c[0] == 'enum':
                ci = self.facts.enum_discr(c[1], c[2])
            if ci is not None:
                for v, x in e[2]:
                    if v == ci:
                        return x
                for v, x in e[2]:
                    if v == 'otherwise':
                        return x
        if t == 'call':
            r = self.fold_call(e)
            if r is not None:
                return r
        return e

    def fold_call(self, e):
        callee, args = e[1], e[2]
        vals = [a[1] if a[0] == 'constref' else a for a in args]
        # derived equality on small enums / integers
        if callee.endswith(' as core::cmp::PartialEq>::eq') or callee == 'core::cmp::PartialEq::ne' \
                or callee.endswith(' as core::cmp::PartialEq>::ne'):
            neg = callee.endswith('ne')
            if len(vals) == 2:
                a, b = vals
                if a[0] == 'enum' and b[0] == 'enum' and a[1] == b[1]:
                    return ('int', int((a[2] == b[2]) != neg), 'bool')
                if a[0] == 'int' and b[0] == 'int':
                    return ('int', int((a[1] == b[1]) != neg), 'bool')
        if callee.startswith('core::option::Option::<T>::') and any(isinstance(v, tuple) and v and v[0] == 'closure' for v in vals):
            r = self.option_adaptor(callee, vals)
            if r is not None:
                return r
        if callee.startswith('core::num::<impl ') and '>::' in callee:
            name = callee.rsplit('::', 1)[1]
            ints = [_int(v) for v in vals]
            if all(i is not None for i in ints) and vals:
                ty = vals[0][2]
                m = MASK.get(ty, (1 << 64) - 1)
                if name == 'wrapping_sub' and len(ints) == 2:
                    return ('int', (ints[0] - ints[1]) & m, ty)
                if name == 'wrapping_add' and len(ints) == 2:
                    return ('int', (ints[0] + ints[1]) & m, ty)
                if name == 'wrapping_mul' and len(ints) == 2:
                    return ('int', (ints[0] * ints[1]) & m, ty)
                if name == 'count_ones':
                    return ('int', bin(ints[0]).count('1'), 'u32')
                if name == 'trailing_zeros':
                    n = ints[0]
                    bits = {'u8': 8, 'u16': 16, 'u32': 32}.get(ty, 64)
                    tz = bits if n == 0 else (n & -n).bit_length() - 1
                    return ('int', tz, 'u32')
        return None

    # ------------------------------------------------------------------ closures
    def apply_closure(self, clo, args, depth=0):
        """the value of calling closure expression ('closure', key, captures) on argument values, or None.
        Parameter 1 of a closure body is the closure itself (its captures are its fields); the call arguments follow."""
        if not (isinstance(clo, tuple) and clo and clo[0] == 'closure') or depth > 3:
            return None
        s = self.an.summary(clo[1])
        if s is None or s.cfg.loops() or any(not st.get('local') for st in s.stores):
            return None
        r = self.subst(s.ret, (clo,) + tuple(args))
        if any(isinstance(x, tuple) and x and x[0] == 'unk' for x in walk(r)):
            return None
        return self.fold(r)

    def option_adaptor(self, callee, vals):
        """Option::map_or / map / and_then / map_or_else / is_some_and / unwrap_or with a closure, as a decision on the tag"""
        if not callee.startswith('core::option::Option::<T>::') or not vals:
            return None
        name = callee.rsplit('::', 1)[1]
        opt = vals[0]
        some = mk_field(mk_variant(opt, 'Some'), '0', self.an)
        none_v = ('agg', 'core::option::Option', 'None', ())
        wrap = lambda v: ('agg', 'core::option::Option', 'Some', (('0', v),))
        tag = ('discr', opt)
        if name == 'map_or' and len(vals) == 3:
            v = self.apply_closure(vals[2], (some,))
            return None if v is None else ('ite', tag, ((0, vals[1]), (1, v)))
        if name == 'map' and len(vals) == 2:
            v = self.apply_closure(vals[1], (some,))
            return None if v is None else ('ite', tag, ((0, none_v), (1, wrap(v))))
        if name == 'and_then' and len(vals) == 2:
            v = self.apply_closure(vals[1], (some,))
            return None if v is None else ('ite', tag, ((0, none_v), (1, v)))
        if name == 'is_some_and' and len(vals) == 2:
            v = self.apply_closure(vals[1], (some,))
            return None if v is None else ('ite', tag, ((0, ('int', 0, 'bool')), (1, v)))
        if name == 'unwrap_or' and len(vals) == 2:
            return ('ite', tag, ((0, vals[1]), (1, some)))
        return None

    def const_value(self, e):
        c = self.facts.consts.get(e[1])
        if c is None:
            return e
        if 'int' in c:
            return self.an.const_expr(dict(ty=c['ty'], int=c['int']))
        if 'bytes' in c and len(c['bytes']) <= 32 and 'BitBoard' not in c['ty']:
            ty = c['ty']
            # resolve named lengths like [Color; NUM_COLORS]
            v = self.an.decode_bytes(bytes.fromhex(c['bytes']), self.resolve_array_ty(ty))
            if v is not None:
                return v
        return e

    def resolve_array_ty(self, ty):
        if ty.startswith('[') and ';' in ty:
            inner, n = ty[1:-1].rsplit(';', 1)
            n = n.strip()
            if not n.isdigit():
                for path, c in self.facts.consts.items():
                    if path.rsplit('::', 1)[-1] == n and 'int' in c:
                        n = str(c['int'])
                        break
            return '[%s; %s]' % (self.resolve_array_ty(inner.strip()), n)
        return ty

    # ------------------------------------------------------------------ inlining
    def inline(self, e, depth=None, only=None):
        """inline crate-local accessor-like calls (pure, loop-free) bottom-up, then fold"""
        if depth is None:
            depth = self.max_depth
        if not isinstance(e, tuple) or not e:
            return e
        t = e[0]
        if t == 'mem' and isinstance(e[1], tuple) and e[1] and e[1][0] == 'h':
            return self.rebuild(t, e, lambda x: self.inline(x, depth, only))
        if t in ('int', 'enum', 'str', 'param', 'mem', 'unit', 'fn', 'unk', 'loop', 'ref', 'zst', 'never'):
            return e
        if t == 'constdef':
            return self.const_value(e)
        if t == 'typed':
            inner = self.inline(e[2], depth, only)
            if inner[0] in ('enum', 'int', 'agg', 'typed', 'ite'):
                return inner
            return ('typed', e[1], inner)
        e = self.rebuild(t, e, lambda x: self.inline(x, depth, only))
        if e[0] == 'call' and depth > 0:
            callee = e[1]
            if callee in self.facts.bodies and (only is None or only(callee)) and self.inlinable(callee):
                args = e[2]
                if all(a[0] != 'ref' for a in args):
                    s = self.an.summary(callee)
                    r = self.subst(s.ret, args, self.param_types(callee))
                    if not any(is_unk(x) for x in walk(r)):
                        return self.inline(r, depth - 1, only)
        if e[0] == 'after' and depth > 0:
            r = self.apply_effect(e)
            if r is not None:
                return self.inline(r, depth - 1, only)
        return self.fold(e)

    def apply_effect(self, e):
        """('after', site, callee, base, args, k): the object after the call, from the callee's summary"""
        callee, base, args, k = e[2], e[3], e[4], e[5]
        if callee not in self.facts.bodies:
            return None
        s = self.an.summary(callee)
        if s is None or s.cfg.loops() or not s.final:
            return None
        fin = s.final.get(('p', k))
        if fin is None:
            return base
        # other objects lent mutably to the same call make the result state dependent
        a2 = []
        for i, a in enumerate(args):
            if i == k - 1:
                a2.append(('constref', base))
            elif a[0] == 'ref':
                return None
            else:
                a2.append(a)
        r = self.subst(fin, tuple(a2))
        if any(x[0] in ('unk', 'phi', 'loop') for x in walk(r)):
            return None
        return r

    def apply_ret(self, e):
        """the value RETURNED by the call that produced ('after', site, callee, base, args, k), in the caller's terms
        (the callee's return expression over its entry state, with the lent object as it was before the call)"""
        callee, base, args, k = e[2], e[3], e[4], e[5]
        if callee not in self.facts.bodies:
            return None
        s = self.an.summary(callee)
        if s is None or s.cfg.loops() or s.ret is None:
            return None
        a2 = []
        for i, a in enumerate(args):
            if i == k - 1:
                a2.append(('constref', base))
            elif a[0] == 'ref':
                return None
            else:
                a2.append(a)
        r = self.subst(s.ret, tuple(a2))
        if any(x[0] in ('unk', 'phi', 'loop') for x in walk(r)):
            return None
        return r

    # ------------------------------------------------------------------ finite maps
    def finmap(self, key, domains):
        """specialise function `key` on constant arguments.
        domains: list (per parameter) of lists of constant exprs; returns {args tuple: folded result}"""
        import itertools
        s = self.an.summary(key)
        if s is None:
            return None
        out = {}
        for combo in itertools.product(*domains):
            args = tuple(combo)
            r = self.inline(self.subst(s.ret, args))
            out[args] = r
        return out

    def enum_consts(self, adt):
        a = self.facts.adts.get(adt)
        return [('enum', adt, v['name']) for v in a['variants']]
