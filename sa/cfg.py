"""CFG analyses over a Body: dominators, post-dominators, control dependence, loops, path queries."""


def rpo(body):
    succ = body.succ()
    seen = set()
    order = []

    def dfs(b):
        stack = [(b, iter(succ[b]))]
        seen.add(b)
        while stack:
            n, it = stack[-1]
            adv = False
            for s in it:
                if s not in seen:
                    seen.add(s)
                    stack.append((s, iter(succ[s])))
                    adv = True
                    break
            if not adv:
                order.append(n)
                stack.pop()

    dfs(0)
    order.reverse()
    return order


def _dom(nodes, entry, preds_of):
    """iterative dominator sets (small graphs)"""
    nodes = list(nodes)
    dom = {n: set(nodes) for n in nodes}
    dom[entry] = {entry}
    changed = True
    while changed:
        changed = False
        for n in nodes:
            if n == entry:
                continue
            ps = [p for p in preds_of(n) if p in dom]
            if not ps:
                new = {n}
            else:
                new = set.intersection(*[dom[p] for p in ps]) | {n}
            if new != dom[n]:
                dom[n] = new
                changed = True
    return dom


class CFG:
    def __init__(self, body):
        self.body = body
        self.succ = body.succ()
        self.pred = body.pred()
        self.order = rpo(body)
        self.nodes = set(self.order)
        self._dom = None
        self._pdom = None
        self._cd = None
        self._loops = None

    # -- dominators
    def dom(self):
        if self._dom is None:
            self._dom = _dom(self.order, 0, lambda n: [p for p in self.pred[n] if p in self.nodes])
        return self._dom

    def dominates(self, a, b):
        return a in self.dom()[b]

    def idom(self, b):
        ds = self.dom()[b] - {b}
        # the dominator dominated by all others
        for d in ds:
            if all(o in self.dom()[d] for o in ds):
                return d
        return None

    # -- post-dominators w.r.t. a virtual exit joined from return blocks (and diverging blocks)
    def pdom(self):
        if self._pdom is None:
            EXIT = -1
            # the `otherwise -> unreachable` arm the compiler adds to an exhaustive match is not a way out of the
            # function: counting it as an exit would make everything after the match control dependent on the match
            dead = {n for n in self.order if self.body.blocks[n]['term'].get('k') == 'unreachable' and not self.body.blocks[n]['stmts']}
            self.dead = dead
            live = [n for n in self.order if n not in dead]
            exits = [n for n in live if not [s for s in self.succ[n] if s in self.nodes and s not in dead]]
            nodes = live + [EXIT]

            def preds_rev(n):
                if n == EXIT:
                    return []
                ss = [s for s in self.succ[n] if s in self.nodes and s not in dead]
                if n in exits:
                    ss = ss + [EXIT]
                return ss

            pd = _dom(nodes, EXIT, preds_rev)
            for n in dead:
                pd[n] = {n, EXIT}
            self._pdom = pd
        return self._pdom

    def postdominates(self, a, b):
        return a in self.pdom()[b]

    # -- control dependence: block b is control dependent on (a, edge a->s) if b postdominates s
    #    (or b == s) and b does not strictly postdominate a
    def control_deps(self):
        if self._cd is None:
            cd = {n: set() for n in self.order}
            pd = self.pdom()
            for a in self.order:
                ss = [s for s in self.succ[a] if s in self.nodes and s not in self.dead]
                if len(set(ss)) < 2:
                    continue
                for s in set(ss):
                    for b in self.order:
                        if b in pd[s] and not (b in pd[a] and b != a):
                            cd[b].add((a, s))
            self._cd = cd
        return self._cd

    def control_deps_transitive(self, b):
        """all (branch block, taken successor) pairs that b transitively depends on"""
        cd = self.control_deps()
        out = set()
        work = [b]
        seen = {b}
        while work:
            n = work.pop()
            for (a, s) in cd[n]:
                if (a, s) not in out:
                    out.add((a, s))
                if a not in seen:
                    seen.add(a)
                    work.append(a)
        return out

    # -- loops
    def back_edges(self):
        return [(a, b) for a in self.order for b in self.succ[a] if b in self.nodes and self.dominates(b, a)]

    def loops(self):
        """header -> set of blocks of the natural loop"""
        if self._loops is None:
            loops = {}
            for (a, h) in self.back_edges():
                body = loops.setdefault(h, {h})
                st = [a]
                while st:
                    n = st.pop()
                    if n not in body:
                        body.add(n)
                        st.extend(p for p in self.pred[n] if p in self.nodes)
            self._loops = loops
        return self._loops

    def in_loop(self, b):
        return [h for h, blk in self.loops().items() if b in blk]

    # -- reachability with removed nodes / edges
    def reachable_from(self, start, removed_nodes=(), removed_edges=()):
        removed_nodes = set(removed_nodes)
        removed_edges = set(removed_edges)
        if start in removed_nodes:
            return set()
        seen = {start}
        st = [start]
        while st:
            n = st.pop()
            for s in self.succ[n]:
                if s in self.nodes and s not in removed_nodes and (n, s) not in removed_edges and s not in seen:
                    seen.add(s)
                    st.append(s)
        return seen

    def can_reach(self, a, b, removed_nodes=(), removed_edges=()):
        return b in self.reachable_from(a, removed_nodes, removed_edges)

    def must_pass(self, a, b, through):
        """every path a ->* b passes a block of `through`"""
        return not self.can_reach(a, b, removed_nodes=[t for t in through if t not in (a,)]) or a in through
