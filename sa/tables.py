"""Constant-data auditor: an independent oracle for board geometry written from the definitions,
and decoders for the constant tables the compiler evaluated (raw bytes from const evaluation).
Nothing of the analysed crate is executed; the tables are data of the compiled program."""
import struct

M64 = (1 << 64) - 1


def bit(sq):
    return 1 << sq


def rf(sq):
    return sq >> 3, sq & 7


def sq_of(r, f):
    return r * 8 + f


def on(r, f):
    return 0 <= r < 8 and 0 <= f < 8


def squares(bb):
    out = []
    while bb:
        l = bb & -bb
        out.append(l.bit_length() - 1)
        bb ^= l
    return out


# ------------------------------------------------------------------ oracle
ROOK_DIRS = [(1, 0), (-1, 0), (0, 1), (0, -1)]
BISHOP_DIRS = [(1, 1), (1, -1), (-1, 1), (-1, -1)]


def ray_walk(sq, occ, dirs):
    """squares reached walking each ray from sq up to and including the first occupied square"""
    r0, f0 = rf(sq)
    out = 0
    for dr, df in dirs:
        r, f = r0 + dr, f0 + df
        while on(r, f):
            s = sq_of(r, f)
            out |= bit(s)
            if occ & bit(s):
                break
            r, f = r + dr, f + df
    return out


def rays(sq, dirs):
    return ray_walk(sq, 0, dirs)


def relevant(sq, dirs):
    """squares whose occupancy can change the attack set: every ray square that has a further ray square behind it"""
    r0, f0 = rf(sq)
    out = 0
    for dr, df in dirs:
        r, f = r0 + dr, f0 + df
        while on(r, f) and on(r + dr, f + df):
            out |= bit(sq_of(r, f))
            r, f = r + dr, f + df
    return out


def aligned_dir(a, b):
    ra, fa = rf(a)
    rb, fb = rf(b)
    dr, df = rb - ra, fb - fa
    if a == b:
        return None
    if dr == 0:
        return (0, 1 if df > 0 else -1)
    if df == 0:
        return (1 if dr > 0 else -1, 0)
    if abs(dr) == abs(df):
        return (1 if dr > 0 else -1, 1 if df > 0 else -1)
    return None


def between(a, b):
    d = aligned_dir(a, b)
    if d is None:
        return 0
    r, f = rf(a)
    out = 0
    r, f = r + d[0], f + d[1]
    while sq_of(r, f) != b:
        out |= bit(sq_of(r, f))
        r, f = r + d[0], f + d[1]
    return out


def line(a, b):
    d = aligned_dir(a, b)
    if d is None:
        return 0
    out = bit(a)
    for sgn in (1, -1):
        r, f = rf(a)
        r, f = r + sgn * d[0], f + sgn * d[1]
        while on(r, f):
            out |= bit(sq_of(r, f))
            r, f = r + sgn * d[0], f + sgn * d[1]
    return out


def steps(sq, deltas):
    r0, f0 = rf(sq)
    out = 0
    for dr, df in deltas:
        if on(r0 + dr, f0 + df):
            out |= bit(sq_of(r0 + dr, f0 + df))
    return out


KING_D = [(dr, df) for dr in (-1, 0, 1) for df in (-1, 0, 1) if (dr, df) != (0, 0)]
KNIGHT_D = [(2, 1), (2, -1), (-2, 1), (-2, -1), (1, 2), (1, -2), (-1, 2), (-1, -2)]


def pawn_attacks(color, sq):
    d = 1 if color == 0 else -1
    return steps(sq, [(d, -1), (d, 1)])


def pawn_pushes(color, sq):
    """squares a pawn may advance to on an empty board: one step, two from its starting rank"""
    d = 1 if color == 0 else -1
    r, f = rf(sq)
    out = 0
    if on(r + d, f):
        out |= bit(sq_of(r + d, f))
        start = 1 if color == 0 else 6
        if r == start:
            out |= bit(sq_of(r + 2 * d, f))
    return out


def rank_bb(r):
    return 0xff << (8 * r)


def file_bb(f):
    return 0x0101010101010101 << f


def adjacent_files(f):
    out = 0
    if f > 0:
        out |= file_bb(f - 1)
    if f < 7:
        out |= file_bb(f + 1)
    return out


EDGES = rank_bb(0) | rank_bb(7) | file_bb(0) | file_bb(7)


def flip_v(bb):
    return int.from_bytes(bb.to_bytes(8, 'little')[::-1], 'little')


def flip_h(bb):
    out = 0
    for s in squares(bb):
        out |= bit(s ^ 7)
    return out


def pdep(val, mask):
    out = 0
    i = 0
    m = mask
    while m:
        l = m & -m
        if val & (1 << i):
            out |= l
        m ^= l
        i += 1
    return out


def subsets(mask):
    """all subsets of mask (Carry-Rippler)"""
    s = 0
    while True:
        yield s
        s = (s - mask) & mask
        if s == 0:
            break


# ------------------------------------------------------------------ decoding
class Tables:
    def __init__(self, facts):
        self.facts = facts

    def const(self, path):
        return self.facts.consts.get(path)

    def has(self, path):
        return path in self.facts.consts

    def scalar(self, path):
        c = self.const(path)
        if c is None or 'int' not in c:
            return None
        return int(c['int'])

    def where(self, path):
        c = self.const(path)
        if not c:
            return '?'
        fl = c['file']
        if '/out/' in fl:
            fl = '$OUT_DIR/' + fl.rsplit('/out/', 1)[1]
        return '%s:%s (%s)' % (fl, c['line'], path)

    def u64s(self, path):
        c = self.const(path)
        if c is None or 'bytes' not in c:
            return None
        b = bytes.fromhex(c['bytes'])
        return list(struct.unpack('<%dQ' % (len(b) // 8), b))

    def u16s(self, path):
        c = self.const(path)
        if c is None or 'bytes' not in c:
            return None
        b = bytes.fromhex(c['bytes'])
        return list(struct.unpack('<%dH' % (len(b) // 2), b))

    def u8s(self, path):
        c = self.const(path)
        if c is None or 'bytes' not in c:
            return None
        return list(bytes.fromhex(c['bytes']))

    def structs(self, path, adt_path):
        """array of structs -> list of dict field->int, using the layout the compiler chose"""
        c = self.const(path)
        adt = self.facts.adts.get(adt_path)
        if c is None or adt is None or 'bytes' not in c or 'size' not in adt:
            return None
        b = bytes.fromhex(c['bytes'])
        size = adt['size']
        sizes = {'u8': 1, 'u16': 2, 'u32': 4, 'u64': 8, 'usize': 8, 'bitboard::BitBoard': 8}
        out = []
        for i in range(len(b) // size):
            rec = {}
            for fl in adt['variants'][0]['fields']:
                n = sizes.get(fl['ty'])
                if n is None or 'offset' not in fl:
                    return None
                o = i * size + fl['offset']
                rec[fl['name']] = int.from_bytes(b[o:o + n], 'little')
            out.append(rec)
        return out
