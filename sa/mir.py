"""Facts loader and MIR model (pure data; nothing of the analysed crate is executed)."""
import json


class Facts:
    def __init__(self, path):
        with open(path) as f:
            d = json.load(f)
        self.raw = d
        self.crate = d['crate']
        self.config = d['config']
        self.target_features = d['target_features']
        self.bodies = {}
        for b in d['bodies']:
            body = Body(b, self)
            self.bodies[body.key] = body
            for p in b.get('promoted', []):
                pb = Body(p, self)
                self.bodies[pb.key] = pb
        self.fns = {f['key']: f for f in d['fns']}
        # std's blanket impls `T: Into<U>` / `T: TryInto<U>` are `U::from(t)` / `U::try_from(t)`: follow them into the crate
        BLANKET = {'<T as core::convert::Into<U>>::into': ('core::convert::From', 'from'),
                   '<T as core::convert::TryInto<U>>::try_into': ('core::convert::TryFrom', 'try_from')}
        for body in list(self.bodies.values()):
            for blk in body.blocks:
                t = blk['term']
                if t['k'] == 'call' and t.get('callee') in BLANKET and len(t.get('gargs') or []) == 2:
                    tr, name = BLANKET[t['callee']]
                    key = '<%s as %s<%s>>::%s' % (t['gargs'][1], tr, t['gargs'][0], name)
                    if key in self.bodies:
                        t['callee'] = key
                        t['decl'] = '%s::%s' % (tr, name)
                        t['resolved'] = True
                        t['gargs'] = []
                        t['callee_crate'] = self.crate
        self.consts = {c['path']: c for c in d['consts']}
        self.adts = {a['path']: a for a in d['adts']}
        self.impls = d['impls']
        self.traits = {t['path']: t for t in d['traits']}
        self.exports = d['exports']
        self._enum_by_discr = {}

    def body(self, key):
        return self.bodies.get(key)

    def enum_variant(self, adt_path, discr):
        """variant name of a fieldless enum for a discriminant value"""
        a = self.adts.get(adt_path)
        if not a or a['kind'] != 'enum':
            return None
        for v in a['variants']:
            if int(v['discr']) == discr:
                return v['name']
        return None

    def enum_discr(self, adt_path, name):
        a = self.adts.get(adt_path)
        if not a or a.get('kind') != 'enum':
            # std enums are not in the crate's ADT table
            if adt_path in ('core::option::Option', 'core::result::Result'):
                return {'None': 0, 'Some': 1, 'Ok': 0, 'Err': 1}.get(name)
            return None
        for v in a['variants']:
            if v['name'] == name:
                return int(v['discr'])
        return None

    def closures_of(self, key):
        pre = key + '::{closure#'
        return [b for k, b in self.bodies.items() if k.startswith(pre) and '::{promoted#' not in k]


class Body:
    def __init__(self, raw, facts):
        self.raw = raw
        self.facts = facts
        self.key = raw['key']
        self.kind = raw['kind']
        self.file = raw['file']
        self.lo = raw['lo']
        self.hi = raw['hi']
        self.arg_count = raw['arg_count']
        self.locals = raw['locals']
        self.blocks = raw['blocks']
        self.upvars = raw.get('upvars', [])
        self._succ = None
        self._pred = None

    def where(self, line=None):
        return '%s:%s' % (self.file, line if line is not None else self.lo)

    def local_name(self, l):
        return self.locals[l].get('name')

    def local_ty(self, l):
        return self.locals[l]['ty']

    # ---------------------------------------------------------------- CFG
    def successors(self, bi, unwind=False):
        t = self.blocks[bi]['term']
        k = t['k']
        out = []
        if k == 'goto':
            out = [t['target']]
        elif k == 'switch':
            out = [b for _, b in t['targets']] + [t['otherwise']]
            # a branch on a literal (`cfg!(debug_assertions)` inside debug_assert!, `if false`): only the taken edge exists
            cv = self.const_switch(bi)
            if cv is not None:
                hit = [b for v, b in t['targets'] if v == cv]
                out = hit[:1] if hit else [t['otherwise']]
        elif k in ('call', 'drop', 'assert'):
            if t.get('target') is not None:
                out = [t['target']]
            if unwind and t.get('unwind') is not None:
                out.append(t['unwind'])
        return out

    def const_switch(self, bi):
        """value of the switch operand of block bi when it is a local assigned a literal in the same block, else None"""
        blk = self.blocks[bi]
        d = blk['term'].get('discr') or {}
        pl = d.get('m') or d.get('c')
        if isinstance(d.get('k'), dict) and 'int' in d['k']:
            return int(d['k']['int'])
        if not pl or pl.get('p'):
            return None
        val = None
        for st in blk['stmts']:
            if st.get('k') == 'assign' and st['pl'].get('l') == pl['l']:
                if not st['pl'].get('p') and st['rv'].get('rv') == 'use' and isinstance(st['rv']['op'].get('k'), dict) and 'int' in st['rv']['op']['k']:
                    val = int(st['rv']['op']['k']['int'])
                else:
                    val = None
        # the local must not be assigned anywhere else (a literal that is later overwritten is not a constant)
        if val is not None:
            for j, b2 in enumerate(self.blocks):
                if j == bi:
                    continue
                for st in b2['stmts']:
                    if st.get('k') == 'assign' and st['pl'].get('l') == pl['l']:
                        return None
                t2 = b2['term']
                if t2.get('k') == 'call' and (t2.get('dest') or {}).get('l') == pl['l']:
                    return None
        return val

    def succ(self):
        if self._succ is None:
            self._succ = [self.successors(i) for i in range(len(self.blocks))]
        return self._succ

    def pred(self):
        if self._pred is None:
            p = [[] for _ in self.blocks]
            for i, ss in enumerate(self.succ()):
                for s in ss:
                    if i not in p[s]:
                        p[s].append(i)
            self._pred = p
        return self._pred

    def reachable(self):
        seen = {0}
        st = [0]
        while st:
            b = st.pop()
            for s in self.succ()[b]:
                if s not in seen:
                    seen.add(s)
                    st.append(s)
        return seen

    def return_blocks(self):
        r = self.reachable()
        return [i for i in sorted(r) if self.blocks[i]['term']['k'] == 'return']

    def calls(self):
        """(block index, terminator) of every call on the non-cleanup CFG"""
        r = self.reachable()
        return [(i, self.blocks[i]['term']) for i in sorted(r) if self.blocks[i]['term']['k'] == 'call']

    # ---------------------------------------------------------------- printing
    def pretty(self):
        out = ['fn %s  [%s:%d-%d] args=%d' % (self.key, self.file, self.lo, self.hi, self.arg_count)]
        for i, l in enumerate(self.locals):
            out.append('  let _%d: %s%s' % (i, l['ty'], ('  // ' + l['name']) if l.get('name') else ''))
        for u in self.upvars:
            out.append('  upvar %s = %s' % (u['name'], fmt_place(u['place'])))
        reach = self.reachable()
        for bi, b in enumerate(self.blocks):
            if bi not in reach:
                continue
            out.append('  bb%d:%s' % (bi, ' (cleanup)' if b.get('cleanup') else ''))
            for s in b['stmts']:
                if s['k'] == 'assign':
                    out.append('    %s = %s   @%d' % (fmt_place(s['pl']), fmt_rv(s['rv']), s['line']))
                else:
                    out.append('    %s' % json.dumps(s))
            out.append('    ' + fmt_term(b['term']))
        return '\n'.join(out)


def fmt_place(p):
    s = '_%d' % p['l']
    for e in p['p']:
        if e == '*':
            s = '(*%s)' % s
        elif isinstance(e, dict):
            if 'f' in e:
                s = '%s.%s' % (s, e.get('n', e['f']))
            elif 'i' in e:
                s = '%s[_%d]' % (s, e['i'])
            elif 'ci' in e:
                s = '%s[%d]' % (s, e['ci'])
            elif 'dc' in e:
                s = '(%s as %s)' % (s, e['dc'])
            else:
                s = '%s.%s' % (s, json.dumps(e))
        else:
            s = '%s.%s' % (s, e)
    return s


def fmt_const(k):
    if 'fn' in k:
        return 'fn(%s)' % k['fn']
    if 'str' in k:
        return json.dumps(k['str'])
    if 'int' in k:
        base = 'const %s: %s' % (k['int'], k['ty'])
        if 'def' in k:
            base += ' /*%s*/' % k['def']
        return base
    if 'def' in k:
        return 'const %s%s' % (k['def'], ('<%s>' % ','.join(k.get('def_args', []))) if k.get('def_args') else '')
    if 'promoted' in k:
        return 'promoted[%d]' % k['promoted']
    return 'const ?%s' % k['ty']


def fmt_op(o):
    if 'c' in o:
        return fmt_place(o['c'])
    if 'm' in o:
        return 'move ' + fmt_place(o['m'])
    if 'k' in o:
        return fmt_const(o['k'])
    return json.dumps(o)


def fmt_rv(rv):
    k = rv['rv']
    if k == 'use':
        return fmt_op(rv['op'])
    if k == 'ref':
        return '&%s%s' % ('mut ' if rv['bk'] == 'mut' else '', fmt_place(rv['pl']))
    if k == 'rawptr':
        return '&raw %s %s' % (rv['bk'], fmt_place(rv['pl']))
    if k == 'bin':
        return '%s(%s, %s)' % (rv['bop'], fmt_op(rv['a']), fmt_op(rv['b']))
    if k == 'un':
        return '%s(%s)' % (rv['uop'], fmt_op(rv['op']))
    if k == 'cast':
        return '%s as %s (%s)' % (fmt_op(rv['op']), rv['ty'], rv['kind'])
    if k == 'discr':
        return 'discriminant(%s)' % fmt_place(rv['pl'])
    if k == 'agg':
        if rv['kind'] == 'adt':
            return '%s::%s{%s}' % (rv['adt'], rv['variant'], ', '.join(fmt_op(o) for o in rv['ops']))
        if rv['kind'] == 'closure':
            return 'closure %s [%s]' % (rv['closure'], ', '.join(fmt_op(o) for o in rv['ops']))
        return '%s(%s)' % (rv['kind'], ', '.join(fmt_op(o) for o in rv['ops']))
    if k == 'repeat':
        return '[%s; %s]' % (fmt_op(rv['op']), rv['n'])
    return json.dumps(rv)


def fmt_term(t):
    k = t['k']
    if k == 'goto':
        return 'goto bb%d' % t['target']
    if k == 'switch':
        return 'switch %s [%s, otherwise bb%d]   @%d' % (
            fmt_op(t['discr']), ', '.join('%s: bb%d' % (v, b) for v, b in t['targets']), t['otherwise'], t['line'])
    if k == 'call':
        callee = t.get('callee') or fmt_op(t['func'])
        g = ''
        return '%s = %s%s(%s) -> %s   @%d' % (
            fmt_place(t['dest']), callee, g, ', '.join(fmt_op(a) for a in t['args']),
            ('bb%d' % t['target']) if t['target'] is not None else '!', t['line'])
    if k == 'assert':
        return 'assert(%s == %s, %s) -> bb%d   @%d' % (fmt_op(t['cond']), t['expected'], t['akind'], t['target'], t['line'])
    if k == 'drop':
        return 'drop(%s) -> bb%d' % (fmt_place(t['pl']), t['target'])
    return k
