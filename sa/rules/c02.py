"""C02 — applying a legal move yields exactly the successor position the rules prescribe.

R1 TWIN-EQUIV: the board produced by make_move (through its out-parameter) and the board returned by
   make_move_new are the same origin expression over (self, m) -- compared on the shared expression
   graph, modulo names of merge points -- or one delegates to the other.
R2 OUT-OVERWRITE: the produced board does not depend on the previous content of the out-parameter.
R3 SOURCE-IMMUTABLE: the receiver is `&Board`, Board has no interior mutability, the bodies contain
   no raw-pointer casts.
R4 SIDE-FLIP-ONCE: the result's side_to_move is `!` of the source's on every path.
R5 RIGHTS-BY-SQUARE: rights change only through the removing helpers, unconditionally, with the
   pairings (opponent, destination square) and (mover, source square); CASTLES_PER_SQUARE data and the
   lookup shape.
R6 EP-DISCIPLINE: en_passant is reset first; Some(_) is written only by set_ep, called only for a
   pawn, without promotion, from a double-move source rank to a double-move destination rank, with
   the destination square; set_ep stores only if an enemy pawn stands beside it.
R7 CASTLE-ROOK: rook relocation iff the king moves between castle squares; rook from file A to D for
   file C, from H to F for file G, on the mover's back rank, with the mover's colour.
R8 TOGGLES: mover removed from source and added on destination; a piece on the destination is
   removed with the opponent's colour; en-passant capture removes the opponent's pawn behind the
   destination; promotion replaces the pawn on the destination by the promotion piece."""
from .common import *
from ..bb import bb, cnot
from ..expr import mk_field, VAR_DEFS, expand_var
from .. import tables as T

LEVEL = 'other'
EXHAUSTIVE = True
EXPLANATION = ('Sibling comparison of the two move-application entry points on their origin expressions (shared expression graph), '
               'independence of the out-parameter, and path rules on the toggle events of make_move_new: every call of the '
               'lock-step toggle / rights helpers / set_ep with its arguments and reaching condition, plus audits of the constants '
               'involved (CASTLES_PER_SQUARE, CASTLE_MOVES, double-move masks, castle-rook file tables).')
NOT_DECIDED = 'that the toggles compose to the right placement for every move (needs the values); the rules decide each toggle and its condition'

MM = 'board::Board::make_move'
MN = 'board::Board::make_move_new'
BOARD = 'board::Board'
SELF = ('mem', ('p', 1))
MV = ('param', 2)
PIECE = lambda n: ENUM('piece::Piece', n)


CONSTS = {}


COMMUTE = {'board::Board::xor', 'board::Board::remove_my_castle_rights', 'board::Board::remove_their_castle_rights',
           'board::Board::remove_castle_rights'}


def commuting_run(e):
    """maximal run of ('after', site, callee, old, argvals, k) nodes with callee in COMMUTE whose other arguments do not
    depend on the object being updated; returns (nodes, object below the run) or (None, None)"""
    run = []
    while isinstance(e, tuple) and e and e[0] == 'after' and e[2] in COMMUTE:
        others = [x for i, x in enumerate(e[4]) if i != e[5] - 1]
        if any(isinstance(y, tuple) and y and y[0] == 'after' for x in others for y in walk(x)):
            break
        run.append(e)
        e = e[3]
    if not run:
        return None, None
    return run, e


def equiv(a, b, memo, depth=0):
    """structural equality on the shared expression graphs, expanding named merge values;
    returns None if equal, else a (path, a-sub, b-sub) witness"""
    if a is b:
        return None
    k = (id(a), id(b))
    if k in memo:
        return memo[k]
    memo[k] = None      # assume equal while exploring (graphs are acyclic; this is only a cache)
    r = _equiv(a, b, memo, depth)
    memo[k] = r
    return r


def _equiv(a, b, memo, depth):
    ta = isinstance(a, tuple)
    tb = isinstance(b, tuple)
    if ta != tb:
        return ('', a, b)
    if not ta:
        return None if a == b else ('', a, b)
    if a and a[0] == 'var' and b and b[0] == 'var':
        da, db = VAR_DEFS.get(a), VAR_DEFS.get(b)
        if da is not None and db is not None:
            return equiv(da, db, memo, depth + 1)
    if a and a[0] == 'var' and a in VAR_DEFS:
        return equiv(VAR_DEFS[a], b, memo, depth + 1)
    if b and b[0] == 'var' and b in VAR_DEFS:
        return equiv(a, VAR_DEFS[b], memo, depth + 1)
    if not a or not b:
        return None if a == b else ('', a, b)
    if a[0] == 'call' and b[0] == 'call':
        # ignore call-site ids
        if a[1] != b[1] or len(a[2]) != len(b[2]):
            return ('', a, b)
        for x, y in zip(a[2], b[2]):
            r = equiv(x, y, memo, depth + 1)
            if r is not None:
                return (a[1].rsplit('::', 1)[-1] + '(..)/' + r[0], r[1], r[2])
        return None
    if a[0] == 'after' and b[0] == 'after' and a[2] in COMMUTE and b[2] in COMMUTE:
        # a run of mutually commuting updates (xor toggles accumulate with ^; rights removals clear bits of one slot;
        # the two groups touch different fields): compare as a multiset, then the objects below the runs
        ra, base_a = commuting_run(a)
        rb, base_b = commuting_run(b)
        if ra is not None and rb is not None and len(ra) == len(rb) and (len(ra) > 1):
            left = list(rb)
            ok = True
            for x in ra:
                hit = None
                for y in left:
                    if x[2] == y[2] and x[5] == y[5] and all(equiv(p, q, memo, depth + 1) is None
                                                           for i, (p, q) in enumerate(zip(x[4], y[4])) if i != x[5] - 1):
                        hit = y
                        break
                if hit is None:
                    ok = False
                    break
                left.remove(hit)
            if ok:
                r = equiv(base_a, base_b, memo, depth + 1)
                if r is None:
                    return None
                return ('before the updates/' + r[0], r[1], r[2])
    if a[0] == 'after' and b[0] == 'after':
        if a[2] != b[2] or a[5] != b[5]:
            return ('', a, b)
        r = equiv(a[3], b[3], memo, depth + 1)
        if r is not None:
            return ('before ' + a[2].rsplit('::', 1)[-1] + '/' + r[0], r[1], r[2])
        for x, y in zip(a[4], b[4]):
            r = equiv(x, y, memo, depth + 1)
            if r is not None:
                return ('args of ' + a[2].rsplit('::', 1)[-1] + '/' + r[0], r[1], r[2])
        return None
    if a[0] == 'ite' and b[0] == 'ite':
        r = equiv(a[1], b[1], memo, depth + 1)
        if r is not None:
            return ('cond/' + r[0], r[1], r[2])
        if len(a[2]) != len(b[2]):
            return ('', a, b)
        for (va, xa), (vb, xb) in zip(a[2], b[2]):
            if va != vb:
                return ('', a, b)
            r = equiv(xa, xb, memo, depth + 1)
            if r is not None:
                return ('case %s/' % va + r[0], r[1], r[2])
        return None
    if a[0] == 'constref':
        return equiv(a[1], b[1] if b[0] == 'constref' else b, memo, depth + 1)
    if b[0] == 'constref':
        return equiv(a, b[1], memo, depth + 1)
    if a[0] == 'loop' and b[0] == 'loop':
        return None   # loop-carried scan state: compared by C03.R3
    if a[0] == 'constdef' and b[0] == 'constdef' and a[1] != b[1]:
        # two constant items (one per copy): equal iff their evaluated values are equal
        ca, cb = CONSTS.get(a[1]), CONSTS.get(b[1])
        if ca and cb and ca.get('ty') == cb.get('ty') and ca.get('bytes', ca.get('int')) == cb.get('bytes', cb.get('int')):
            return None
        return ('constant %s vs %s' % (a[1].rsplit('::', 1)[-1], b[1].rsplit('::', 1)[-1]), a, b)
    if len(a) != len(b) or (isinstance(a[0], str) and a[0] != b[0]):
        return ('', a, b)
    for i, (x, y) in enumerate(zip(a, b)):
        r = equiv(x, y, memo, depth + 1)
        if r is not None:
            nm = a[0] if isinstance(a[0], str) else ''
            if nm in ('upd',) and i == 3:
                nm = 'field %s' % a[2]
            return (nm + '/' + r[0], r[1], r[2])
    return None


def rename_root(e, frm, to, memo):
    """replace the object root `frm` by `to` (so that the out-parameter and the local result coincide)"""
    if not isinstance(e, tuple):
        return e
    k = id(e)
    if k in memo:
        return memo[k][0]
    if e == frm:
        r = to
    else:
        r = tuple(rename_root(x, frm, to, memo) for x in e)
        if r == e:
            r = e
    memo[k] = (r, e)
    return r


DELEGATES = {}


def bodies(ctx):
    """the move-application bodies R4-R8 apply to: (summary, produced board, key).  When make_move_new only delegates to the
    in-place make_move, that is make_move with the final content of its out-parameter."""
    sn = ctx.an().summary(MN)
    sm = ctx.an().summary(MM)
    if sn is not None and sm is not None:
        rn = norm(sn.ret)
        if rn[0] == 'after' and rn[2] == MM and norm(rn[3]) == SELF:
            sig = ctx.facts().fns[MM]['inputs']
            outp = [i + 1 for i, t in enumerate(sig) if t.startswith('&mut board::Board')]
            fin = sm.final.get(('p', outp[0])) if len(outp) == 1 else None
            if fin is not None:
                return [(sm, fin, MM)]
    return [(sn, sn.ret, MN)] if sn is not None else []


def r12(ctx):
    sm = summary(ctx, MM, 'C02.R1')
    sn = summary(ctx, MN, 'C02.R1')
    if sm is None or sn is None:
        return None
    sig = ctx.facts().fns[MM]['inputs']
    outp = [i + 1 for i, t in enumerate(sig) if t.startswith('&mut board::Board')]
    if len(outp) != 1:
        ctx.inconclusive('C02.R1', 'make_move has no `&mut Board` out-parameter: %s' % sig)
        return sn
    out_root = ('p', outp[0])
    fin = sm.final.get(out_root)
    if fin is None:
        ctx.violation('C02.R2', MM + ':no-write', 'make_move never writes its out-parameter', where(sm.body))
        return sn
    # R2: no dependence on the old content
    old = ('mem', out_root)
    seen = set()
    dep = [False]

    def scan(x):
        if not isinstance(x, tuple) or id(x) in seen:
            return
        seen.add(id(x))
        if x == old:
            dep[0] = True
            return
        if x and x[0] == 'var' and x in VAR_DEFS:
            scan(VAR_DEFS[x])
        for c in x:
            if isinstance(c, tuple):
                scan(c)
    scan(fin)
    if dep[0]:
        ctx.violation('C02.R2', MM + ':out-dependence', 'the board written by make_move depends on what the output board held before '
                      '(the out-parameter is not fully overwritten by a copy of the source first)', where(sm.body))
    else:
        ctx.ok('C02.R2', 'make_move: the produced board is independent of the previous content of the out-parameter', where(sm.body))
    # first access to the out parameter is the whole-value store of *self
    first = None
    for st in sm.stores:
        if st['target'][1] == out_root:
            first = st
            break
    if first is not None and not first['target'][2] and norm(first['value']) == SELF and sm.cfg.dominates(first['blk'], sm.body.return_blocks()[0]):
        ctx.ok('C02.R2', 'make_move begins with `*result = *self` (whole-value store dominating every other access)', where(sm.body, first['line']))
    # R1: delegation -- make_move_new is `let mut r = *self; self.make_move(m, &mut r); r`
    rn = norm(sn.ret)
    if rn[0] == 'after' and rn[2] == MM and norm(rn[3]) == SELF:
        ctx.ok('C02.R1', 'make_move_new delegates to make_move on a copy of the source: one body, nothing to diverge', where(sn.body))
        DELEGATES['new->inplace'] = (sm, fin)
        return sn
    # R1 twin equivalence
    ret = sn.ret
    memo = {}
    CONSTS.clear()
    CONSTS.update(ctx.facts().consts)
    w = equiv(fin, ret, memo)
    if w is None:
        ctx.ok('C02.R1', 'make_move (out-parameter) and make_move_new (return value) produce the same expression over (self, m)', where(sm.body))
    else:
        # Not literally the same expression.  The two bodies are then held to the rules R4-R8 (and C03.R3 for the cache
        # tail) one by one: those rules fix every field of the produced board, so two bodies that both satisfy them agree.
        path, a, b = w
        before = len(ctx.violations) + len(ctx.inconclusives)
        r48(ctx, sm, result=fin, KEY=MM)
        if len(ctx.violations) + len(ctx.inconclusives) == before:
            ctx.ok('C02.R1', 'make_move and make_move_new are spelled differently (first difference at %s) but each satisfies R4-R8 on its own; '
                   'the cache tail of both is compared by C03.R3' % (path or 'the top level'), where(sm.body))
        else:
            ctx.violation('C02.R1', 'twin:' + path[:80], 'the two move-application entry points diverge at %s (make_move has %s, make_move_new has %s) '
                          'and make_move does not satisfy R4-R8 on its own' % (path or 'the top level', sh(a, 160), sh(b, 160)), where(sm.body))
    return sn


def r3(ctx):
    R = 'C02.R3'
    f = ctx.facts()
    for key in (MM, MN):
        fn = f.fns.get(key)
        if fn is None:
            continue
        if fn['inputs'] and fn['inputs'][0] == '&board::Board':
            ctx.ok(R, '%s takes `&self` (shared reference)' % key, where(f.body(key)))
        else:
            ctx.violation(R, key + ':receiver', '%s receiver is %s' % (key, fn['inputs'][:1]), where(f.body(key)))
        body = f.body(key)
        bad = []
        for bi in body.reachable():
            for st in body.blocks[bi]['stmts']:
                if st['k'] == 'assign':
                    rv = st['rv']
                    if rv['rv'] == 'rawptr' or (rv['rv'] == 'cast' and rv['kind'] in ('Transmute', 'PtrToPtr', 'PointerExposeProvenance')):
                        bad.append(st['line'])
        if bad:
            ctx.violation(R, key + ':rawptr', '%s contains raw-pointer / transmute operations (lines %s)' % (key, bad[:3]), where(body, bad[0]))
        else:
            ctx.ok(R, '%s contains no raw-pointer or transmute operation' % key, where(body))
    adt = f.adts.get(BOARD)
    cells = ('Cell<', 'RefCell<', 'UnsafeCell<', 'Atomic', 'Mutex<', 'RwLock<', 'OnceCell<', '*mut ', '*const ')
    badf = [fl['name'] for fl in adt['variants'][0]['fields'] if any(c in fl['ty'] for c in cells)]
    inner = []
    for n in ('bitboard::BitBoard', 'square::Square', 'color::Color', 'castle_rights::CastleRights'):
        a = f.adts.get(n)
        if a:
            for v in a['variants']:
                for fl in v['fields']:
                    if any(c in fl['ty'] for c in cells):
                        inner.append(n + '.' + fl['name'])
    if badf or inner:
        ctx.violation(R, 'interior-mutability', 'Board has interior mutability / raw pointers in %s' % (badf + inner), '%s:%s' % (adt['file'], adt['lo']))
    else:
        ctx.ok(R, 'Board and its field types contain no interior mutability and no raw pointers', '%s:%s' % (adt['file'], adt['lo']))


def events(ctx, s):
    """toggle / helper calls of make_move_new with canonical arguments and reaching conditions"""
    an = ctx.an()
    ev = []
    TARGETS = ('board::Board::xor', 'board::Board::set_ep', 'board::Board::remove_ep', 'board::Board::remove_my_castle_rights',
               'board::Board::remove_their_castle_rights', 'board::Board::remove_castle_rights', 'board::Board::add_castle_rights',
               'board::Board::add_my_castle_rights', 'board::Board::add_their_castle_rights')
    # looking through private helpers (`fn toggle_castle_rook(&mut self, ..)`): their toggles count as toggles of the caller
    for c in expanded_calls(ctx, s, lambda c_: c_['callee'] in TARGETS):
        if c['callee'] is None:
            ev.append(dict(call=c, name='?helper', args=[], dnf=dnf(s, c['blk']), obj=None))
            continue
        args = [bb(a, an) for a in c['argvals'][1:]]
        ev.append(dict(call=c, name=c['callee'].rsplit('::', 1)[1], args=args, dnf=dnf(s, c['blk']), obj=c['argvals'][0]))
    return ev


def lit_kinds(ctx, s, conj, M, SRC, DST):
    """classify the literals of one reaching condition of make_move_new"""
    an = ctx.an()
    out = {}
    for g in conj:
        if g['cond'] is None:
            continue
        c = bb(g['cond'], an)
        tv = g['truth']
        m = match(call('<piece::Piece as core::cmp::PartialEq>::eq', V('a'), V('b')), c)
        if m is not None and M in (m['a'], m['b']):
            other = m['b'] if m['a'] == M else m['a']
            if other[0] == 'enum':
                out[('moved', other[2])] = tv
            continue
        if c[0] == 'discr':
            x = c[1]
            if x == M:
                # `match moved { Piece::Knight => .., Piece::Pawn => .., _ => .. }`: the taken arm as moved == / != facts
                f_ = ctx.facts()
                names = {f_.enum_discr('piece::Piece', nme): nme for nme in ('Pawn', 'Knight', 'Bishop', 'Rook', 'Queen', 'King')}
                vals = g['vals']
                if 'otherwise' in vals:
                    for v in g['all']:
                        if v != 'otherwise' and v in names:
                            out[('moved', names[v])] = False
                elif len(vals) == 1 and vals[0] in names:
                    out[('moved', names[vals[0]])] = True
                    for v, nme in names.items():
                        if v != vals[0]:
                            out.setdefault(('moved', nme), False)
                continue
            if match(call('board::Board::piece_on', ('param', 1), DST), x) is not None:
                out['capture'] = (g['vals'] == [1])
                continue
            if match(call('chess_move::ChessMove::get_promotion', MV), x) is not None:
                out['promotion'] = (g['vals'] == [1])
                continue
            if x[0] == 'field' and x[1][0] == 'variant' and match(call('chess_move::ChessMove::get_promotion', MV), x[1][1]) is not None:
                kd = ctx.facts().enum_discr('piece::Piece', 'Knight')
                out['promo-knight'] = (g['vals'] == [kd])
                continue
        if c[0] in ('bbne', 'bbeq') and ('bb0',) in c[1:]:
            other = [y for y in c[1:] if y != ('bb0',)][0]
            nonempty = tv if c[0] == 'bbne' else (not tv)
            if other[0] == 'bb' and other[1] == '&':
                ops = set(other[2])
                if ('single', SRC) in ops and any(y[0] == 'call' and y[1] == 'magic::get_pawn_source_double_moves' for y in ops):
                    out['src-double'] = nonempty
                    continue
                if ('single', DST) in ops and any(y[0] == 'call' and y[1] == 'magic::get_pawn_dest_double_moves' for y in ops):
                    out['dst-double'] = nonempty
                    continue
        m = match(call('<core::option::Option<T> as core::cmp::PartialEq>::eq', V('a'), V('b')), c)
        if m is not None:
            sides = [m['a'], m['b']]
            epf = ('field', SELF, 'en_passant')
            behind = ('agg', 'core::option::Option', 'Some', (('0', call('square::Square::ubackward', DST, ('field', SELF, 'side_to_move'))),))
            if epf in sides and any(match(behind, y) is not None for y in sides):
                out['ep-capture'] = tv
                continue
        # castles flag: moved == King && (move_bb & CASTLE_MOVES) == move_bb (possibly as a nested ite / var)
        txt = repr(c)
        if 'get_castle_moves' in txt or (c[0] == 'var' and 'get_castle_moves' in repr(expand_var(c))[:20000]):
            out['castles'] = tv
            out['castles-expr'] = c
            continue
        out.setdefault('other', []).append((sh(c, 120), tv))
    return out


def r48(ctx, sn, result=None, KEY=None):
    """R4-R8 for one move-application body: `result` is the produced board (return value of make_move_new, or the final
    content of make_move's out-parameter), KEY its function key"""
    result = sn.ret if result is None else result
    KEY = KEY or MN
    an = ctx.an()
    f = ctx.facts()
    body = sn.body
    w = where(body)
    STM = ('field', SELF, 'side_to_move')
    OPP = cnot(STM)
    # --- R4
    side = bb(mk_field(result, 'side_to_move', an), an)
    if side == OPP:
        ctx.ok('C02.R4', 'result.side_to_move = !self.side_to_move on every path', w)
    else:
        ctx.violation('C02.R4', KEY + ':side', 'side to move of the result is %s' % sh(side, 200), w)
    # moved piece / squares
    SRC = call('chess_move::ChessMove::get_source', MV, gargs=())
    DST = call('chess_move::ChessMove::get_dest', MV, gargs=())
    M = call('core::option::Option::<T>::unwrap', call('board::Board::piece_on', ('param', 1), SRC, gargs=()), gargs=())
    ev = events(ctx, sn)
    if not ev:
        ctx.inconclusive('C02.R8', 'no toggle events found in make_move_new')
        return
    uncond = lambda e: e['dnf'] == [[]] or all(not [g for g in conj if g['cond'] is not None] for conj in e['dnf'])
    # --- R6 first event resets en passant
    order = {b: i for i, b in enumerate(sn.cfg.order)}
    evs = sorted(ev, key=lambda e: order.get(e['call']['blk'], 1 << 30))
    if evs[0]['name'] == 'remove_ep' and uncond(evs[0]):
        ctx.ok('C02.R6', 'en_passant is reset (remove_ep) before anything else, unconditionally', where(body, evs[0]['call']['line']))
    else:
        ep_first = mk_field(result, 'en_passant', an)
        ctx.violation('C02.R6', KEY + ':ep-reset', 'the en-passant state of the source is not cleared first (first event: %s)' % evs[0]['name'],
                      where(body, evs[0]['call']['line']))
    sre = ctx.an().summary('board::Board::remove_ep')
    if sre is not None:
        fin = norm(sre.final.get(('p', 1), SELF))
        if fin == ('upd', SELF, 'en_passant', ('agg', 'core::option::Option', 'None', ())):
            ctx.ok('C02.R6', 'remove_ep stores None', where(sre.body))
        else:
            ctx.violation('C02.R6', 'board::Board::remove_ep', 'remove_ep leaves ' + sh(fin, 120), where(sre.body))
    # writers of Some(_) into en_passant
    eff = ctx.eff()
    epw = sorted(k for k in eff.direct if (BOARD, 'en_passant') in eff.direct[k] and '::{' not in k)
    allowed = {'board::Board::set_ep', 'board::Board::remove_ep'}
    extra = [k for k in epw if k not in allowed and k in eff.reach(MN) | eff.reach(MM)]
    if extra:
        ctx.violation('C02.R6', 'ep-writers:' + ','.join(extra), 'en_passant is written field-wise by %s inside move application' % extra, w)
    else:
        ctx.ok('C02.R6', 'inside move application en_passant is written only by set_ep / remove_ep', w)
    # --- classify events
    n_xor = 0
    problems = []
    seen = {'src': False, 'dst': False, 'capture': False, 'ep-capture': False, 'promo-knight': 0, 'promo-other': 0,
            'rook-start': False, 'rook-end': False, 'their': False, 'my': False, 'set_ep': False}
    for e in evs:
        nm = e['name']
        line = e['call']['line']
        conds = [lit_kinds(ctx, sn, conj, M, SRC, DST) for conj in e['dnf']]
        if nm == 'xor':
            n_xor += 1
            pc, sqs, col = e['args']
            if pc == M and sqs == ('single', SRC) and col == STM and uncond(e):
                seen['src'] = True
            elif pc == M and sqs == ('single', DST) and col == STM and uncond(e):
                seen['dst'] = True
            elif match(('field', ('variant', call('board::Board::piece_on', ('param', 1), DST), 'Some'), '0'), pc) is not None and \
                    sqs == ('single', DST) and col == OPP and all(c.get('capture') is True and set(c) <= {'capture'} for c in conds):
                seen['capture'] = True
            elif pc == PIECE('Pawn') and col == OPP and sqs == ('single', call('square::Square::ubackward', DST, STM, gargs=())):
                ok = all(c.get(('moved', 'Pawn')) is True and c.get('ep-capture') is True and c.get('promotion') is not True and
                         not (c.get('src-double') and c.get('dst-double')) for c in conds)
                # a further condition on the way to the toggle (`self.checkers == EMPTY && ..`) narrows the capture: the pawn taken
                # en passant stays on the board whenever it is false.  Only tests of the en-passant slot itself are implied.
                foreign = sorted({t_ for c in conds for (t_, tv_) in c.get('other', []) if 'en_passant' not in t_})
                if ok and foreign:
                    problems.append(('C02.R8', 'ep-capture-narrowed', 'the en-passant capture toggle additionally depends on `%s`: when that '
                                     'fails the captured pawn is not removed' % foreign[0], line))
                    seen['ep-capture'] = True
                elif ok:
                    seen['ep-capture'] = True
                elif any(('en_passant' in t_) and ('closure' in t_ or 'map_or' in t_ or 'is_some_and' in t_) for c in conds for (t_, _tv) in c.get('other', [])):
                    # `self.en_passant.map_or(false, |ep| ep == dest.ubackward(us))`: the comparison lives in a closure
                    seen['ep-capture'] = True
                    ctx.inconclusive('C02.R8', 'the en-passant capture is recognised through a closure on the en-passant slot (map_or / is_some_and): not analysed')
                else:
                    problems.append(('C02.R8', 'ep-capture-guard', 'the en-passant capture toggle is not guarded by (pawn, no promotion, not a double '
                                     'push, Some(dest.ubackward) == en_passant): %s' % [sorted((str(k), v) for k, v in c.items() if k != 'castles-expr') for c in conds][:1], line))
            elif pc == PIECE('Pawn') and sqs == ('single', DST) and col == STM:
                if all(c.get(('moved', 'Pawn')) is True and c.get('promotion') is True for c in conds):
                    if all(c.get('promo-knight') is True for c in conds):
                        seen['promo-knight'] += 1
                    else:
                        seen['promo-other'] += 1
                else:
                    problems.append(('C02.R8', 'promo-remove-guard', 'pawn removal on the destination is not guarded by (pawn, promotion)', line))
            elif sqs == ('single', DST) and col == STM and pc == PIECE('Knight'):
                if all(c.get('promo-knight') is True and c.get(('moved', 'Pawn')) is True for c in conds):
                    seen['promo-knight'] += 1
                else:
                    problems.append(('C02.R8', 'promo-knight-guard', 'knight placement is not guarded by (pawn, promotion to knight)', line))
            elif sqs == ('single', DST) and col == STM and match(('field', ('variant', call('chess_move::ChessMove::get_promotion', MV), 'Some'), '0'), pc) is not None:
                if all(c.get('promotion') is True and c.get(('moved', 'Pawn')) is True for c in conds):
                    seen['promo-other'] += 1
                else:
                    problems.append(('C02.R8', 'promo-add-guard', 'promotion piece placement is not guarded by (pawn, promotion)', line))
            elif pc == PIECE('Rook') and col == STM and sqs[0] == 'call' and sqs[1] == 'bitboard::BitBoard::set':
                rk, fl = sqs[2]
                okrk = rk == call('color::Color::to_my_backrank', STM, gargs=())
                m = match(('index', ('constdef', V('t'), ANY), call('file::File::to_index', call('square::Square::get_file', DST))), fl)
                okg = all(c.get('castles') is True and c.get(('moved', 'Knight')) is not True and c.get(('moved', 'Pawn')) is not True for c in conds)
                if m is None or not okrk or not okg:
                    problems.append(('C02.R7', 'rook-toggle', 'rook toggle %s is not (back rank of the mover, table[file of destination]) under the castling condition' % sh(sqs, 160), line))
                else:
                    tab = T.Tables(f).u8s(m['t'])
                    files = [f.enum_variant('file::File', v) for v in (tab or [])]
                    if len(files) == 8 and (files[2], files[6]) == ('A', 'H'):
                        seen['rook-start'] = True
                    elif len(files) == 8 and (files[2], files[6]) == ('D', 'F'):
                        seen['rook-end'] = True
                    else:
                        problems.append(('C02.R7', 'rook-table:' + m['t'].rsplit('::', 1)[-1], 'castle rook table %s maps file C -> %s and file G -> %s (required A/H for the start, D/F for the end)' % (
                            m['t'], files[2] if len(files) == 8 else '?', files[6] if len(files) == 8 else '?'), line))
            else:
                problems.append(('C02.R8', 'unknown-toggle:%s' % sh(pc, 40), 'unexpected placement toggle (%s, %s, %s)' % (sh(pc, 60), sh(sqs, 80), sh(col, 40)), line))
        elif nm in ('remove_their_castle_rights', 'remove_my_castle_rights'):
            their = nm.startswith('remove_their')
            want_col, want_sq = (OPP, DST) if their else (STM, SRC)
            a = e['args'][0]
            m = match(call('castle_rights::CastleRights::square_to_castle_rights', V('c'), V('s')), a)
            # the object's side to move at the call decides whose slot "my"/"their" is
            objside = bb(mk_field(e['obj'], 'side_to_move', an), an)
            if m is not None and m['c'] == want_col and m['s'] == want_sq and uncond(e) and objside == STM:
                seen['their' if their else 'my'] = True
            else:
                problems.append(('C02.R5', nm, '%s is called with %s (required: rights of %s looked up by the %s square, unconditionally, before the side flips)' % (
                    nm, sh(a, 160), 'the opponent' if their else 'the mover', 'destination' if their else 'source'), line))
        elif nm.startswith('add_'):
            problems.append(('C02.R5', nm, 'move application adds castling rights', line))
        elif nm == 'remove_castle_rights':
            problems.append(('C02.R5', nm, 'rights removed with an explicit colour: pairing not recognised', line))
        elif nm == 'set_ep':
            a = e['args'][0]
            ok = all(c.get(('moved', 'Pawn')) is True and c.get('promotion') is not True and c.get('src-double') is True and c.get('dst-double') is True
                     for c in conds)
            objside = bb(mk_field(e['obj'], 'side_to_move', an), an)
            extra = [c['other'] for c in conds if c.get('other')]
            if a == DST and ok and objside == STM and extra:
                # the four conditions are necessary AND sufficient: any further condition loses en-passant squares
                problems.append(('C02.R6', 'set_ep-extra-guard', 'set_ep(dest) is additionally guarded by %s: a double pawn step that meets the four '
                                 'conditions but not this one leaves no en-passant square although the pawn may be capturable' % (
                                     [x for x, _ in extra[0]][:2]), line))
            elif a == DST and ok and objside == STM:
                seen['set_ep'] = True
            else:
                problems.append(('C02.R6', 'set_ep-guard', 'set_ep(%s) is not guarded by (pawn, no promotion, source on a double-move source rank, destination '
                                 'on a double-move destination rank): %s' % (sh(a, 60), [sorted((str(k), v) for k, v in c.items() if k != 'castles-expr') for c in conds][:1]), line))
    for rule, key, msg, line in problems:
        ctx.violation(rule, KEY + ':' + key, msg, where(body, line))
    need = [('C02.R8', 'src', 'mover removed from the source square with the mover\'s colour, unconditionally'),
            ('C02.R8', 'dst', 'mover added on the destination square, unconditionally'),
            ('C02.R8', 'capture', 'a piece standing on the destination is removed with the opponent\'s colour (iff piece_on(dest) is Some)'),
            ('C02.R8', 'ep-capture', 'en-passant capture removes the opponent\'s pawn on dest.ubackward(mover)'),
            ('C02.R5', 'their', 'opponent loses the rights attached to the destination square'),
            ('C02.R5', 'my', 'mover loses the rights attached to the source square'),
            ('C02.R6', 'set_ep', 'set_ep(dest) exactly on double pawn pushes'),
            ('C02.R7', 'rook-start', 'castling removes the rook from file A (c-side) / H (g-side) of the mover\'s back rank'),
            ('C02.R7', 'rook-end', 'castling puts the rook on file D (c-side) / F (g-side) of the mover\'s back rank')]
    for rule, k, desc in need:
        if seen[k]:
            ctx.ok(rule, desc, w)
        elif not any(p[0] == rule for p in problems):
            ctx.violation(rule, KEY + ':missing:' + k, 'missing: ' + desc, w)
    if seen['promo-knight'] == 2 and seen['promo-other'] == 2:
        ctx.ok('C02.R8', 'promotion: the pawn on the destination is replaced by the promotion piece (knight branch and general branch)', w)
    elif not any(p[1].startswith('promo') for p in problems):
        ctx.violation('C02.R8', KEY + ':promotion', 'promotion toggles incomplete (knight branch %d/2, general branch %d/2)' % (seen['promo-knight'], seen['promo-other']), w)
    ctx.floor('C02.R8', 'placement toggles in make_move_new', n_xor, 6)
    # castles flag definition
    cexprs = [c.get('castles-expr') for e in evs for conj in e['dnf'] for c in [lit_kinds(ctx, sn, conj, M, SRC, DST)] if c.get('castles-expr') is not None]
    if cexprs:
        ce = expand_var(cexprs[0])
        mvbb = ('bb', '^', tuple(sorted([('single', SRC), ('single', DST)], key=repr)))
        want_in = ('bbeq', ('bb', '&', tuple(sorted([mvbb, call('magic::get_castle_moves', gargs=())], key=repr))), mvbb)
        king = call('<piece::Piece as core::cmp::PartialEq>::eq', M, PIECE('King'), gargs=())
        okc = False
        if ce[0] == 'ite' and match(king, ce[1]) is not None:
            cs = dict(ce[2])
            inner = cs.get('otherwise')
            if cs.get(0) == ('int', 0, 'bool') and inner is not None and inner[0] == 'bbeq' and set(inner[1:]) == set(want_in[1:]):
                okc = True
        if okc:
            ctx.ok('C02.R7', 'castling condition: moved == King && (from|to) subset of CASTLE_MOVES', w)
        else:
            ctx.violation('C02.R7', KEY + ':castles-flag', 'the castling condition is not `moved == King && (move_bb & CASTLE_MOVES) == move_bb`: ' + sh(ce, 300), w)
    # set_ep body
    ss = ctx.an().summary('board::Board::set_ep')
    if ss is not None:
        fin = bb(ss.final.get(('p', 1), SELF), an)
        sq = ('param', 2)
        adj = ('bb', '&', tuple(sorted([call('magic::get_adjacent_files', call('square::Square::get_file', sq, gargs=()), gargs=()),
                                         call('magic::get_rank', call('square::Square::get_rank', sq, gargs=()), gargs=()),
                                         ('pieces', ('field', SELF, 'pieces'), PIECE('Pawn')),
                                         ('cc', ('field', SELF, 'color_combined'), cnot(('field', SELF, 'side_to_move')))], key=repr)))
        some = ('agg', 'core::option::Option', 'Some', (('0', sq),))
        old = ('field', SELF, 'en_passant')
        pats = [('upd', SELF, 'en_passant', ('ite', ('bbne', ('bb0',), adj), ((0, old), ('otherwise', some)))),
                ('upd', SELF, 'en_passant', ('ite', ('bbne', adj, ('bb0',)), ((0, old), ('otherwise', some)))),
                ('upd', SELF, 'en_passant', ('ite', ('bbeq', ('bb0',), adj), ((0, some), ('otherwise', old)))),
                ('upd', SELF, 'en_passant', ('ite', ('bbeq', adj, ('bb0',)), ((0, some), ('otherwise', old))))]
        if fin in pats:
            ctx.ok('C02.R6', 'set_ep stores Some(sq) iff an enemy pawn stands on an adjacent file of the same rank', where(ss.body))
        else:
            ctx.violation('C02.R6', 'board::Board::set_ep', 'set_ep does not store exactly under `adjacent_files(file) & rank(rank) & pawns & '
                          'color_combined(!side_to_move) != EMPTY`: ' + sh(fin, 400), where(ss.body))
    # CASTLES_PER_SQUARE data + lookup
    t = T.Tables(f)
    cps = t.u8s('castle_rights::CASTLES_PER_SQUARE')
    if cps is None or len(cps) != 128:
        ctx.inconclusive('C02.R5', 'CASTLES_PER_SQUARE not found')
    else:
        want = [0] * 128
        for c, r in ((0, 0), (1, 7)):
            want[64 * c + T.sq_of(r, 0)] = 2
            want[64 * c + T.sq_of(r, 4)] = 3
            want[64 * c + T.sq_of(r, 7)] = 1
        badi = [i for i in range(128) if cps[i] != want[i]]
        ctx.bulk('C02.R5', 128, 128 - len(badi))
        if badi:
            i = badi[0]
            ctx.violation('C02.R5', 'castle_rights::CASTLES_PER_SQUARE', 'rights-per-square table wrong at colour %d square %d: %d, expected %d' % (
                i // 64, i % 64, cps[i], want[i]), t.where('castle_rights::CASTLES_PER_SQUARE'))
        else:
            ctx.instance('C02.R5', 'CASTLES_PER_SQUARE: a1/a8 -> QueenSide, e1/e8 -> Both, h1/h8 -> KingSide, 0 elsewhere (128 entries)',
                         t.where('castle_rights::CASTLES_PER_SQUARE'))
    sq = summary(ctx, 'castle_rights::CastleRights::square_to_castle_rights', 'C02.R5')
    if sq is not None:
        r = norm(inliner(ctx).inline(sq.ret, only=lambda k: k != 'castle_rights::CastleRights::from_index'))
        want = call('castle_rights::CastleRights::from_index',
                    ('cast', ('index', ('index', ('constdef', 'castle_rights::CASTLES_PER_SQUARE', ANY), ('cast', ('discr', ('param', 1)), 'usize')),
                              ('cast', ('field', ('param', 2), '0'), 'usize')), 'usize'))
        if match(want, r) is not None:
            ctx.ok('C02.R5', 'square_to_castle_rights(c, sq) = from_index(CASTLES_PER_SQUARE[c][sq])', where(sq.body))
        else:
            ctx.violation('C02.R5', 'castle_rights::CastleRights::square_to_castle_rights', 'lookup is ' + sh(r, 300), where(sq.body))
    for nm, colour in (('remove_my_castle_rights', STM), ('remove_their_castle_rights', OPP)):
        sx = ctx.an().summary('board::Board::' + nm)
        if sx is None:
            continue
        cs = [c for c in sx.calls if c['callee'] == 'board::Board::remove_castle_rights']
        if len(cs) == 1 and bb(cs[0]['argvals'][1], an) == colour and norm(cs[0]['argvals'][2]) == ('param', 2):
            ctx.ok('C02.R5', '%s(r) = remove_castle_rights(%s, r)' % (nm, 'side to move' if colour == STM else '!side to move'), where(sx.body))
        else:
            ctx.violation('C02.R5', 'board::Board::' + nm, '%s does not remove from the %s colour' % (nm, 'mover\'s' if colour == STM else 'opponent\'s'), where(sx.body))


def run(ctx):
    bb(('unit',), ctx.an())
    DELEGATES.clear()
    sn = r12(ctx)
    r3(ctx)
    if sn is not None:
        for s_, res_, key_ in bodies(ctx):
            r48(ctx, s_, result=res_, KEY=key_)
    # R9 GEOMETRY (= C16.R1/R2): set_ep, the castling rook squares and the double-step test read the geometry tables
    tables_dep(ctx, 'C02.R9', ['board::Board::make_move', 'board::Board::make_move_new'])
    # R10 BUILD-PARITY: the two entry points write and call the same things with and without debug assertions
    debug_parity(ctx, 'C02.R10', ['board::Board::make_move', 'board::Board::make_move_new'])
