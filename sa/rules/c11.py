"""C11 — draw claims exactly on threefold repetition or the fifty-move rule.

R1 RESET-CAUSES: the counter is the integer compared `>= 100` on the way to `return true`; every
   store of 0 to it inside the replay loop is control dependent only on "the moved piece is a pawn"
   or "the destination is occupied"; a reset controlled by anything else is reported with that
   condition.
R2 THRESHOLD: the comparison is `>= 100` (or `> 99`), the increment is by one, once per MakeMove on
   exactly the paths that do not reset.
R3 TWO-EARLIER: the repetition `return true` is reachable only through two equality tests of the
   last entry against entries at two distinct earlier indices; entry identity is the pair
   (get_hash, legal-move list) of the same board.
R4 LIST-DISCIPLINE: an entry is pushed for the start position and after every MakeMove; the board
   is advanced with make_move_new; the list is cleared only under irreversible events (pawn move,
   capture, castling-rights change).
R5 DECLARE: declare_draw pushes DeclareDraw iff can_declare_draw().
R6 OPEN-GAME: every `true` of can_declare_draw is behind "the game has no result" (the clause C10.R1 also holds it to)."""
from .common import *

LEVEL = 'other'
EXHAUSTIVE = True
EXPLANATION = ('Control-dependence rules on the replay loop of Game::can_declare_draw: every reset of the half-move counter and '
               'every clear of the repetition list is attributed to its controlling conditions (a castling-rights change must compare one colour on the boards before and after the move); threshold and increment shapes; '
               'structure of the nested repetition search; entry identity of the list.')
NOT_DECIDED = 'that (hash, move list) identity coincides with position identity (64-bit collisions)'

KEY = 'game::Game::can_declare_draw'
SELF = ('mem', ('p', 1))


def classify(cond, BOARD_LOOP, MV):
    """name of a guard condition inside the replay loop"""
    c = norm(cond)
    src = call('chess_move::ChessMove::get_source', MV)
    dst = call('chess_move::ChessMove::get_dest', MV)
    pawn = ('agg', 'core::option::Option', 'Some', (('0', ENUM('piece::Piece', 'Pawn')),))
    m = match(call('<core::option::Option<T> as core::cmp::PartialEq>::eq', call('board::Board::piece_on', V('b'), src), pawn), c)
    if m is not None:
        return 'pawn-move'
    m = match(call('core::option::Option::<T>::is_some', call('board::Board::piece_on', V('b'), dst)), c)
    if m is not None:
        return 'capture'
    m = match(call('core::option::Option::<T>::is_none', call('board::Board::piece_on', V('b'), dst)), c)
    if m is not None:
        return 'not-capture'
    if c[0] == 'call' and 'PartialEq' in c[1] and (c[1].endswith('::ne') or c[1].endswith('::eq')):
        if len(c[2]) == 2 and all(a[0] == 'tuple' and a[1] and all(x[0] == 'call' and x[1] == 'board::Board::castle_rights' for x in a[1]) for a in c[2]) \
                and len(c[2][0][1]) == len(c[2][1][1]):
            # `(white, black)` before vs after: componentwise the same comparison
            kinds = {classify(('call', c[1].replace('core::tuple::<impl core::cmp::PartialEq for (U, T)>', 'core::cmp::PartialEq'), (x, y), ()), BOARD_LOOP, MV)
                     for x, y in zip(c[2][0][1], c[2][1][1])}
            return 'rights-changed' if kinds == {'rights-changed'} else sorted(kinds - {'rights-changed'})[0]
        if all(a[0] == 'call' and a[1] == 'board::Board::castle_rights' for a in c[2]) and len(c[2]) == 2:
            # a change of rights compares the SAME side's rights on two boards: the colour arguments must denote one colour
            # (side_to_move of the board after a move is the opposite of the one before it: C02)
            def colour(x):
                x = norm(x)
                if x[0] == 'call' and x[1] == '<color::Color as core::ops::bit::Not>::not':
                    y = colour(x[2][0])
                    return y[1] if y[0] == 'cnot' else ('cnot', y)
                if x[0] == 'call' and x[1] == 'board::Board::side_to_move' and x[2][0][0] == 'call' and \
                        x[2][0][1] in ('board::Board::make_move_new',):
                    y = colour(('call', 'board::Board::side_to_move', (x[2][0][2][0],), ()))
                    return y[1] if y[0] == 'cnot' else ('cnot', y)
                return x
            c1, c2 = colour(c[2][0][2][1]), colour(c[2][1][2][1])
            if c1 == c2:
                return 'rights-changed'
            return 'other: castling rights of different sides compared (%s vs %s)' % (sh(c1, 60), sh(c2, 60))
        none = ('agg', 'core::option::Option', 'None', ())
        for x, y in ((c[2][0], c[2][1]), (c[2][1], c[2][0])) if len(c[2]) == 2 else ():
            if y == none and match(call('board::Board::piece_on', V('b'), dst), x) is not None:
                return 'not-capture' if c[1].endswith('::eq') else 'capture'
    # `moved.is_some() && moved.unwrap() == Piece::Pawn`
    if match(call('core::option::Option::<T>::is_some', call('board::Board::piece_on', V('b'), src)), c) is not None:
        return 'src-some'
    if c[0] == 'call' and 'PartialEq' in c[1] and (c[1].endswith('::eq') or c[1].endswith('::ne')) and len(c[2]) == 2:
        unw = call('core::option::Option::<T>::unwrap', call('board::Board::piece_on', V('b'), src))
        for x, y in ((c[2][0], c[2][1]), (c[2][1], c[2][0])):
            if match(unw, x) is not None and y == ENUM('piece::Piece', 'Pawn'):
                return 'pawn-move' if c[1].endswith('::eq') else 'not-pawn-move'
    # the same tests spelled with `match` / `matches!` / `if let`: the Option tag and the piece inside it
    if c[0] == 'discr':
        if match(call('board::Board::piece_on', V('b'), src), c[1]) is not None:
            return 'src-tag'
        if match(call('board::Board::piece_on', V('b'), dst), c[1]) is not None:
            return 'dst-tag'
        if match(('field', ('variant', call('board::Board::piece_on', V('b'), src), 'Some'), '0'), c[1]) is not None:
            return 'src-piece'
    return 'other: ' + sh(c, 160)


def move_kind_decide(facts, ELEM, mm_disc, MV, ismove, pawn, capture, rights, unknown, NEXT=None):
    """decision function for eval_tree: the outcome of every condition of the replay loop body for a move of the given kind
    (rights=None: explore both outcomes of a castling-rights comparison)"""
    PAWN = facts.enum_discr('piece::Piece', 'Pawn')

    def decide(c, vals):
        cn = norm(c)
        if cn[0] == 'discr' and cn[1] == ELEM:
            return mm_disc if ismove else 'otherwise'
        if NEXT is not None and cn == ('discr', NEXT):
            return 1                         # inside an iteration: the iterator yielded Some
        k = classify(c, None, MV)
        if k == 'pawn-move':
            return as_bool(pawn, vals)
        if k == 'not-pawn-move':
            return as_bool(not pawn, vals)
        if k == 'src-some':
            return as_bool(True, vals) if pawn else None
        if k == 'capture':
            return as_bool(capture, vals)
        if k == 'not-capture':
            return as_bool(not capture, vals)
        if k == 'dst-tag':
            return 1 if capture else 0
        if k == 'src-tag':
            return 1 if pawn else None          # not a pawn move: empty source or another piece
        if k == 'src-piece':
            if pawn:
                return PAWN
            others = [v for v in vals if v not in (PAWN,)]
            return others or None
        if k == 'rights-changed':
            return None if rights is None else as_bool(rights, vals)
        unknown.append(k)
        return None
    return decide


ITER = 'core::iter::traits::iterator::Iterator::'


def count_idiom(ctx, s, true_blk):
    """The counting form of the repetition search:  `list[..last].iter()<adapters>.filter(|x| *x == list[last]).count() >= 2`.
    Entries are (hash, moves) with the side to move folded into the hash, so entries at odd distance from the last one
    never compare equal and a position cannot recur at distance 2; the adapters are sound iff the distances examined
    contain every even distance >= 4, for every list length.  Returns (verdict, message, line) or None if not this form."""
    cfg = s.cfg
    for st in s.stores:
        if not (st.get('local') and st['target'] == ('ref', ('l', 0), ())):
            continue
        if st['blk'] in cfg.reachable_from(true_blk) and cfg.dominates(true_blk, st['blk']):
            continue
        v = norm(st['value'])
        if v[0] != 'bin' or v[1] not in ('Ge', 'Gt') or v[3][0] != 'int':
            continue
        cnt = v[2]
        if not (cnt[0] == 'call' and cnt[1].endswith('::count') and cnt[2] and cnt[2][0][0] == 'call' and cnt[2][0][1] == ITER + 'filter'):
            continue
        need = v[3][1] + (1 if v[1] == 'Gt' else 0)
        src, clo = cnt[2][0][2]
        chain = []
        while src[0] == 'call' and src[1].startswith(ITER) and src[1][len(ITER):] in ('rev', 'skip', 'step_by', 'take'):
            chain.append((src[1][len(ITER):], src[2][1] if len(src[2]) > 1 else None))
            src = src[2][0]
        chain.reverse()
        LEN = call('alloc::vec::Vec::<T, A>::len', V('l'))
        LAST = ('bin', 'Sub', LEN, ('int', 1, 'usize'))
        m = match(call('core::slice::<impl [T]>::iter', ('mem', ('h', call('<alloc::vec::Vec<T, A> as core::ops::index::Index<I>>::index', V('l'),
                       ('agg', 'core::ops::range::RangeTo', 'RangeTo', (('end', LAST),)))))), src)
        if m is None:
            return ('inconclusive', 'counting form: the counted sequence is not `list[..len-1].iter()` followed by rev/skip/step_by: ' + sh(src, 160), st['line'])
        cap = clo[2][0] if clo[0] == 'closure' and len(clo[2]) == 1 else None
        if cap is not None and cap[0] == 'call' and cap[1].endswith('::clone') and len(cap[2]) == 1:
            cap = cap[2][0]          # a clone of the last entry compares like the entry
        if cap is None or match(('index', m['l'], ('bin', 'Sub', call('alloc::vec::Vec::<T, A>::len', m['l']), ('int', 1, 'usize'))), cap) is None:
            return ('inconclusive', 'counting form: the filter closure does not capture exactly the last entry: ' + sh(clo, 160), st['line'])
        cs = ctx.an().summary(clo[1])
        r = norm(cs.ret) if cs is not None else None
        def deref(a):
            # the predicate may compare through any number of reference layers: `*x == current`, `**x == *current`
            while isinstance(a, tuple) and a and a[0] == 'mem' and isinstance(a[1], tuple) and a[1] and a[1][0] == 'h':
                a = a[1][1]
            if isinstance(a, tuple) and a and a[0] == 'mem' and a[1] == ('p', 2):
                return ('param', 2)
            return a
        sides = {sh(deref(a)) for a in r[2]} if (r is not None and r[0] == 'call') else set()
        if r is None or not (r[0] == 'call' and r[1].endswith('::eq') and 'PartialEq' in r[1] and
                             sides == {sh(('param', 2)), sh(('field', ('mem', ('p', 1)), '0'))}):
            return ('inconclusive', 'counting form: the filter predicate is not `entry == last`: ' + (sh(r, 160) if r else '?'), st['line'])
        # distances examined: list index last-d  <->  distance d >= 1
        rev = False
        first, step, ok_chain = 1, 1, True
        for name, arg in chain:
            if name == 'rev' and first == 1 and step == 1 and not rev:
                rev = True
            elif name == 'skip' and arg is not None and arg[0] == 'int':
                first += arg[1] * step
            elif name == 'step_by' and arg is not None and arg[0] == 'int' and arg[1] >= 1:
                step *= arg[1]
            else:
                ok_chain = False
        if not ok_chain:
            return ('inconclusive', 'counting form: adapter chain %s not understood' % [n for n, _ in chain], st['line'])
        if not rev and (first != 1 or step != 1):
            return ('violation', 'repetition count walks the earlier entries from the oldest with skip/step (%s): which distances from the '
                    'current position are examined depends on the list length, so earlier occurrences are missed' % [n for n, _ in chain], st['line'])
        missed = [d for d in range(4, 4 + 2 * max(step, 2) + first, 2) if d < first or (d - first) % step != 0]
        if missed:
            return ('violation', 'repetition count examines only the entries at distance %d, %d, %d, ... before the current one: an earlier '
                    'occurrence at distance %d is never compared, so a third occurrence can go undetected' % (first, first + step, first + 2 * step, missed[0]), st['line'])
        if need != 2:
            return ('violation', 'repetition is claimed when %d earlier entries equal the current one; threefold repetition needs exactly 2 earlier occurrences' % need, st['line'])
        return ('ok', 'repetition: claimed iff at least two of the earlier entries (distances %d, %d, ... cover every even distance >= 4) equal the last entry' % (first, first + step), st['line'])
    return None


def run(ctx):
    # R6 OPEN-GAME (= the can_declare_draw clause of C10.R1): no `true` is returned once the game has a result
    from . import c10
    c10._CTX[0] = ctx
    c10.cdd_gate(ctx, 'C11.R6')
    s = summary(ctx, KEY, 'C11.R1')
    if s is None:
        return
    body = s.body
    w = where(body)
    cfg = s.cfg
    # --- find the threshold test
    thr = None
    for b, c in s.switches.items():
        cn = norm(c)
        if cn[0] == 'bin' and cn[1] in ('Ge', 'Gt') and cn[2][0] == 'loop' and cn[3][0] == 'int':
            thr = (b, cn)
    if thr is None:
        # not a per-move counter: is the compared quantity taken from the size / indices of the ACTION log?
        LOGLEN = call('alloc::vec::Vec::<T, A>::len', ('field', SELF, 'moves'))
        for b, c in s.switches.items():
            cn = norm(c)
            if cn[0] == 'bin' and cn[1] in ('Ge', 'Gt') and cn[3][0] == 'int' and 90 <= cn[3][1] <= 110:
                uses_log = any(match(LOGLEN, x) is not None for x in walk(cn[2]) if isinstance(x, tuple)) or \
                    any(isinstance(x, tuple) and len(x) > 1 and x[0] == 'call' and 'Enumerate' in str(x[1]) for x in walk(cn[2]))
                if uses_log:
                    ctx.violation('C11.R2', KEY + ':counts-actions', 'the quantity compared with %d is computed from the length / indices of the action '
                                  'log (%s): draw offers are entries of that log too, so an ignored offer counts as a half-move towards the '
                                  'fifty-move rule' % (cn[3][1], sh(cn[2], 120)), where(body, body.blocks[b]['term'].get('line')))
                    return
        ctx.inconclusive('C11.R2', 'no `counter >= N` test on a loop-carried integer found in can_declare_draw')
        return
    tb, tc = thr
    counter = tc[2]
    h, root = counter[1], counter[2]
    n = tc[3][1] + (1 if tc[1] == 'Gt' else 0)
    t = body.blocks[tb]['term']
    true_blk = t['otherwise']
    # nothing but "the game has no result" and the end of the replay may stand between the caller and the fifty-move test: a
    # further early `return false` (on the size of the repetition list, say) refuses claims the rule grants
    from . import c10 as _c10
    for g in guards(s, tb):
        if g['cond'] is None:
            continue
        cn_ = norm(g['cond'])
        if _c10.game_open(g['cond'], g['vals']):
            continue
        if cn_[0] == 'discr' and cn_[1][0] == 'call' and str(cn_[1][1]).endswith('::next'):
            continue            # the replay loop ran to exhaustion
        if cn_[0] == 'discr' and any(isinstance(x, tuple) and x and x[0] == 'call' and str(x[1]).endswith('::last') for x in walk(cn_)):
            continue            # `match self.moves.last()` forms of the result gate are judged by C11.R6
        ctx.violation('C11.R2', KEY + ':fifty-gated', 'the fifty-move test is reached only when `%s` is %s: claims the rule grants are refused '
                      'on the other branch' % (sh(cn_, 120), g['vals']), where(body, g.get('line') or t.get('line')))
    # the true edge returns true
    ret_true = False
    for st in s.stores:
        if st.get('local') and st['target'] == ('ref', ('l', 0), ()) and norm(st['value']) == ('int', 1, 'bool') and \
                st['blk'] in cfg.reachable_from(true_blk) and cfg.dominates(true_blk, st['blk']):
            ret_true = True
    if n == 100 and ret_true:
        ctx.ok('C11.R2', 'fifty-move test: counter %s %d leads to `return true`' % ('>=' if tc[1] == 'Ge' else '>', tc[3][1]), where(body, t['line']))
    else:
        ctx.violation('C11.R2', KEY + ':threshold', 'fifty-move threshold is `counter %s %d`%s; required: claimable from 100 half-moves' % (
            '>=' if tc[1] == 'Ge' else '>', tc[3][1], '' if ret_true else ' and its true edge does not return true'), where(body, t['line']))
    loops = [l for l in for_loops(s) if l['header'] == h]
    if not loops:
        ctx.inconclusive('C11.R1', 'replay loop not recognised')
        return
    L = loops[0]
    require_no_break(ctx, 'C11.R4', s, L, KEY, 'the action log', 'later moves are neither counted nor entered into the repetition list')
    if match(call('core::slice::<impl [T]>::iter', ('field', SELF, 'moves')), norm(L['source'])) is None:
        ctx.violation('C11.R4', KEY + ':replay-source', 'the replay loop does not iterate the action log: ' + sh(L['source'], 120), w)
    ELEM = ('mem', ('h', norm(L['elem'])))
    MV = ('field', ('variant', ELEM, 'MakeMove'), '0')
    ctrl = {L['header']}
    for b in L['blocks']:
        c = s.switches.get(b)
        if c is not None and c[0] == 'discr' and norm(c[1]) in (norm(L['next']['result']), ELEM):
            ctrl.add(b)
    mm_disc = ctx.facts().enum_discr('game::Action', 'MakeMove')

    def lits_of(conj):
        out = []
        for g in conj:
            if g['cond'] is None:
                continue
            c = norm(g['cond'])
            if c[0] == 'discr' and c[1] in (norm(L['next']['result']), ELEM):
                continue
            out.append((classify(g['cond'], None, MV), g['truth'], g))
        return out

    def body_dnf(blk):
        return [lits_of(conj) for conj in dnf(s, blk, within=L['blocks'])]

    def body_guards(blk):
        """literals common to every way of reaching blk inside one loop iteration"""
        ds = body_dnf(blk)
        if not ds:
            return []
        common = [(n_, tv, g) for (n_, tv, g) in ds[0] if all(any(n2 == n_ and t2 == tv for n2, t2, _ in d) for d in ds[1:])]
        return common

    # --- R1 / R2: the counter after one loop iteration, as a decision table over the move kinds
    zero = [st for st in s.stores if st.get('local') and st['target'] == ('ref', root, ()) and st['blk'] in L['blocks']
            and norm(st['value'])[0] == 'int' and norm(st['value'])[1] == 0]
    init = norm(s.exit[L['pre']].get(root)) if L['pre'] is not None else None
    if init is not None and init[0] == 'int' and init[1] == 0:
        ctx.ok('C11.R2', 'counter starts at 0', w)
    else:
        ctx.violation('C11.R2', KEY + ':init', 'counter does not start at 0 (%s)' % sh(init, 60), w)
    latch = loop_latch_value(s, L, root)
    if latch is None:
        ctx.inconclusive('C11.R1', 'counter update per iteration not determined')
    else:
        lv = norm(latch)
        unknown = []
        bad = []
        inc_ty = 'i32'
        for x in walk(lv):
            if x[0] == 'bin' and x[1] == 'Add' and x[2] == counter and x[3][0] == 'int':
                inc_ty = x[3][2]
        for ismove in (True, False):
            for pawn in (True, False):
                for capture in (True, False):
                    for rights in (True, False):
                        decide = move_kind_decide(ctx.facts(), ELEM, mm_disc, MV, ismove, pawn, capture, None, unknown)
                        leaves = set(eval_tree(lv, decide))
                        if not ismove:
                            want = counter
                        elif pawn or capture:
                            want = ('int', 0, inc_ty)
                        else:
                            want = ('bin', 'Add', counter, ('int', 1, inc_ty))
                        if leaves != {want}:
                            bad.append((ismove, pawn, capture, sorted(sh(l, 60) for l in leaves), sh(want, 60)))
        foreign = sorted(set(u for u in unknown))
        if foreign:
            ctx.violation('C11.R1', KEY + ':reset:' + foreign[0].split(':')[0],
                          'the fifty-move counter depends on a condition other than pawn move / capture: ' + foreign[0], w)
        elif bad:
            b0 = bad[0]
            kind = 'reset' if any('0' == x for x in b0[3]) and b0[4] != '0' else 'update'
            ctx.violation('C11.R1' if kind == 'reset' else 'C11.R2', KEY + ':counter-table',
                          'counter update wrong in %d of 16 cases; e.g. (MakeMove=%s, pawn move=%s, capture=%s): %s, required %s -- only pawn moves '
                          'and captures reset the count; every other move adds one' % (len(bad), b0[0], b0[1], b0[2], b0[3], b0[4]),
                          where(body, zero[0]['line'] if zero else None))
        else:
            ctx.ok('C11.R1', 'counter per MakeMove: 0 after a pawn move or a capture -- and under no other condition (castling-rights changes do not matter)', w)
            ctx.ok('C11.R2', 'counter per MakeMove: +1 on every other move; unchanged by non-move actions (16 cases)', w)
    for st in zero:
        ctx.instance('C11.R1', 'reset site', where(body, st['line']))
    ctx.floor('C11.R1', 'counter resets inside the replay loop', len(zero), 1)
    # --- R4 list discipline
    lst = None
    pushes = [c for c in s.calls if c['callee'] == 'alloc::vec::Vec::<T, A>::push']
    clears = [c for c in s.calls if c['callee'] == 'alloc::vec::Vec::<T, A>::clear']
    ident_ok = True

    def pv(c_):
        """the pushed value; a call of a local closure (`entry(&board)`) is replaced by the closure's value on its arguments"""
        v_ = norm(c_['argvals'][1])
        if v_[0] == 'call' and '::{closure#' in v_[1] and v_[2] and v_[2][0][0] == 'closure':
            try:
                # Fn::call(closure, (args..)): the arguments arrive as one tuple
                args_ = tuple(v_[2][1][1]) if len(v_[2]) == 2 and v_[2][1][0] == 'tuple' else tuple(v_[2][1:])
                r_ = inliner(ctx).apply_closure(v_[2][0], args_)
                if r_ is not None:
                    return norm(r_)
            except Exception:
                pass
        return v_
    for c in pushes:
        v = pv(c)
        m = match(('tuple', (call('board::Board::get_hash', V('b')),
                             call('core::iter::traits::iterator::Iterator::collect', call('movegen::movegen::MoveGen::new_legal', V('b'))))), v)
        if m is None and v[0] == 'call' and '::{closure#' in v[1] and v[2] and v[2][0][0] == 'closure':
            # the entry is built by a local closure `let entry = |b: &Board| (b.get_hash(), MoveGen::new_legal(b).collect())`:
            # read the closure's own return value over its argument
            cs = ctx.an().summary(v[1])
            cv = norm(cs.ret) if cs is not None and cs.ret is not None else None
            if cv is not None and not (dict(enumerate(v[2][0])).get(2) or ()):
                m = match(('tuple', (call('board::Board::get_hash', V('b')),
                                     call('core::iter::traits::iterator::Iterator::collect', call('movegen::movegen::MoveGen::new_legal', V('b'))))), cv)
            if m is None:
                ident_ok = False
                ctx.inconclusive('C11.R3', 'a list entry is built by a closure whose value is not analysed: ' + sh(v, 120))
                continue
        if m is None:
            ident_ok = False
            ctx.violation('C11.R3', KEY + ':entry', 'a list entry is not (get_hash(b), legal moves of the same b): ' + sh(v, 200), where(body, c['line']))
    if pushes and ident_ok:
        ctx.ok('C11.R3', 'every list entry is (get_hash(b), MoveGen::new_legal(b).collect()) of one and the same board', w)
    pre = [c for c in pushes if c['blk'] not in L['blocks']]
    inl = [c for c in pushes if c['blk'] in L['blocks']]
    if len(pre) == 1 and match(('tuple', (call('board::Board::get_hash', ('field', SELF, 'start_pos')), ANY)), pv(pre[0])) is not None:
        ctx.ok('C11.R4', 'the start position is entered before the replay', where(body, pre[0]['line']))
    else:
        ctx.violation('C11.R4', KEY + ':start-entry', 'the start position is not entered into the repetition list exactly once', w)
    if len(inl) == 1 and not body_guards(inl[0]['blk']):
        newb = call('board::Board::make_move_new', V('old'), MV)
        v = pv(inl[0])
        if match(('tuple', (call('board::Board::get_hash', newb), ANY)), v) is not None:
            ctx.ok('C11.R4', 'after every MakeMove the successor (make_move_new of the replayed board) is entered, unconditionally', where(body, inl[0]['line']))
        else:
            ctx.violation('C11.R4', KEY + ':succ-entry', 'the entry pushed in the loop is not the successor position: ' + sh(v, 200), where(body, inl[0]['line']))
    else:
        ctx.violation('C11.R4', KEY + ':loop-entry', 'entries are not pushed exactly once per MakeMove (found %d pushes, guards %s)' % (
            len(inl), [n_ for c in inl for n_, _, _ in body_guards(c['blk'])]), w)
    def possible(conj, decide):
        """can all branch outcomes of this reaching condition hold for a move of the kind `decide` describes?"""
        for g in conj:
            if g['cond'] is None:
                continue
            probe = ('ite', g['cond'], tuple((v, ('int', i, 'case')) for i, v in enumerate(g['all'])))
            chosen = {g['all'][l[1]] for l in eval_tree(probe, decide) if isinstance(l, tuple) and l and l[0] == 'int' and l[2] == 'case'}
            if not (chosen & set(g['vals'])):
                return False
        return True

    for c in clears:
        if c['blk'] not in L['blocks']:
            ctx.violation('C11.R4', KEY + ':clear-outside', 'the repetition list is cleared outside the replay loop', where(body, c['line']))
            continue
        conjs = dnf(s, c['blk'], within=L['blocks'])
        bad = None
        unknown = []
        for ismove in (True, False):
            for pawn in (True, False):
                for capture in (True, False):
                    for rights in (True, False):
                        irreversible = ismove and (pawn or capture or rights)
                        if irreversible:
                            continue
                        decide = move_kind_decide(ctx.facts(), ELEM, mm_disc, MV, ismove, pawn, capture, rights, unknown, NEXT=norm(L['next']['result']))
                        if any(possible(conj, decide) for conj in conjs):
                            bad = bad or (ismove, pawn, capture, rights)
        foreign = sorted(set(unknown))
        if foreign:
            ctx.violation('C11.R4', KEY + ':clear:' + foreign[0].split(':')[0], 'the repetition list is cleared under %s' % foreign[:2], where(body, c['line']))
        elif bad:
            ctx.violation('C11.R4', KEY + ':clear:reversible', 'the repetition list is cleared for %s: earlier occurrences of the position are forgotten' % (
                'a non-move action' if not bad[0] else 'a reversible move (no pawn move, no capture, castling rights unchanged)'), where(body, c['line']))
        else:
            ctx.ok('C11.R4', 'list cleared only on an irreversible event (pawn move, capture, or castling-rights change)', where(body, c['line']))
    # --- R3 repetition search
    reps = []
    for st in s.stores:
        if st.get('local') and st['target'] == ('ref', ('l', 0), ()) and norm(st['value']) == ('int', 1, 'bool') and \
                not (st['blk'] in cfg.reachable_from(true_blk) and cfg.dominates(true_blk, st['blk'])):
            reps.append(st)
    idiom = count_idiom(ctx, s, true_blk) if len(reps) != 1 else None
    if idiom is not None:
        verdict, msg, line = idiom
        if verdict == 'ok':
            ctx.ok('C11.R3', msg, where(body, line))
        elif verdict == 'violation':
            ctx.violation('C11.R3', KEY + ':two-earlier', msg, where(body, line))
        else:
            ctx.inconclusive('C11.R3', msg + ' ' + where(body, line))
    elif len(reps) != 1:
        ctx.inconclusive('C11.R3', 'the repetition search is in neither recognised form (nested index loops with one `return true`, '
                         'or a filtered count of earlier entries compared with 2); found %d constant `return true` stores %s' % (len(reps), w))
    else:
        st = reps[0]
        inner = [l for l in for_loops(s) if st['blk'] in l['blocks'] and l['header'] != h]
        eqs = []
        for g in guards(s, st['blk']):
            if g['cond'] is None:
                continue
            c = norm(g['cond'])
            if c[0] == 'call' and c[1].endswith('::eq') and 'PartialEq' in c[1] and truth(g) is True and len(c[2]) == 2:
                eqs.append(c)
        idxs = []
        last_ok = True
        for c in eqs:
            a, b_ = c[2]
            ent, other = (a, b_) if a[0] == 'index' else (b_, a)
            if ent[0] != 'index':
                continue
            idxs.append(ent[2])
            # the other side is (a clone of) the last entry
            lastp = ('index', V('l'), ('bin', 'Sub', call('alloc::vec::Vec::<T, A>::len', V('l')), ('int', 1, 'usize')))
            o = other
            if o[0] == 'call' and o[1].endswith('::clone'):
                o = o[2][0]
            if match(lastp, o) is None:
                last_ok = False
        ok = False
        inner = [l for l in for_loops(s) if l['header'] != h and norm(l['elem']) in idxs]
        if len(inner) == 2 and len(idxs) == 2 and last_ok:
            outer_l, inner_l = sorted(inner, key=lambda l: -len(l['blocks']))
            I, J = norm(outer_l['elem']), norm(inner_l['elem'])
            so, si = norm(outer_l['source']), norm(inner_l['source'])
            mo = match(('agg', 'core::ops::range::Range', 'Range', (('start', V('s')), ('end', ('bin', 'Sub', call('alloc::vec::Vec::<T, A>::len', V('l')), ('int', 1, 'usize'))))), so)
            mi = match(('agg', 'core::ops::range::Range', 'Range', (('start', V('s')), ('end', I))), si)
            if mo is not None and mi is not None and set(idxs) == {I, J}:
                ok = True
                # where the search window starts: index 0 of a list that is cleared on irreversible moves, or a window index
                # that must point AT the entry of the position the irreversible move produced (not past it)
                S0 = mi['s']
                if S0 != ('int', 0, 'usize'):
                    if S0[0] == 'loop' and S0[1] == h:
                        verdicts = []
                        for st2 in s.stores:
                            if st2.get('local') and st2['target'] == ('ref', S0[2], ()) and st2['blk'] in L['blocks']:
                                v2 = norm(st2['value'])
                                pushed = any(isinstance(x, tuple) and x and x[0] == 'after' and str(x[2]).endswith('::push') for x in walk(v2))
                                if v2[0] == 'call' and v2[1].endswith('::len'):
                                    verdicts.append('past' if pushed else 'at')
                                elif v2[0] == 'bin' and v2[1] == 'Sub' and v2[3] == ('int', 1, 'usize') and v2[2][0] == 'call' and v2[2][1].endswith('::len'):
                                    verdicts.append('at' if pushed else '?')
                                else:
                                    verdicts.append('?')
                        if 'past' in verdicts:
                            ok = None
                            ctx.violation('C11.R3', KEY + ':window-start', 'the repetition window is moved to `len()` AFTER the position produced by the '
                                          'irreversible move was pushed: that position (index len()-1) is never counted as an occurrence', where(body, st['line']))
                        elif not verdicts or '?' in verdicts:
                            ok = None
                            ctx.inconclusive('C11.R3', 'the repetition search starts at a window index whose updates are not analysed: ' + sh(S0, 80))
                    else:
                        ok = None
                        ctx.inconclusive('C11.R3', 'the repetition search starts at %s (neither 0 nor a window index kept by the replay loop)' % sh(S0, 80))
        if ok is None:
            pass
        elif ok:
            ctx.ok('C11.R3', 'repetition: `return true` requires list[i] == last and list[j] == last with j < i < len-1 (two distinct earlier entries)',
                   where(body, st['line']))
        elif any(c_['callee'] and c_['callee'].split('::')[-1] in ('any', 'all', 'find', 'position', 'filter', 'count', 'fold') and
                 any(isinstance(a_, tuple) and a_ and a_[0] == 'closure' for a_ in c_['argvals'] or ()) for c_ in s.calls):
            # part of the search is inside a closure handed to an iterator adaptor (`(0..i).any(|j| list[j] == last)`)
            ctx.inconclusive('C11.R3', 'the repetition search uses an iterator adaptor with a closure: the equalities inside the closure are not analysed')
        else:
            ctx.violation('C11.R3', KEY + ':two-earlier', 'the repetition claim is not guarded by two equalities of the last entry with two distinct '
                          'earlier entries (equalities found: %d, index expressions: %s)' % (len(eqs), [sh(i, 60) for i in idxs]), where(body, st['line']))
    # board advance
    adv = [st for st in s.stores if st.get('local') and st['blk'] in L['blocks'] and norm(st['value'])[0] == 'call' and
           norm(st['value'])[1] == 'board::Board::make_move_new']
    if adv and all(match(call('board::Board::make_move_new', ('loop', h, V('r')), MV), norm(st['value'])) is not None for st in adv):
        ctx.ok('C11.R4', 'the replayed board advances by make_move_new(board, m) for every MakeMove', where(body, adv[0]['line']))
    else:
        ctx.violation('C11.R4', KEY + ':advance', 'the replayed board is not advanced with make_move_new(board, m)', w)
    # --- R5
    sd = summary(ctx, 'game::Game::declare_draw', 'C11.R5')
    if sd is not None:
        r = norm(sd.ret)
        can = call(KEY, ('param', 1))
        if match(('ite', can, ((0, ('int', 0, 'bool')), ('otherwise', ('int', 1, 'bool')))), r) is not None:
            pushes = [c for c in sd.calls if c['callee'] == 'alloc::vec::Vec::<T, A>::push']
            good = len(pushes) == 1 and norm(pushes[0]['argvals'][1]) == ('agg', 'game::Action', 'DeclareDraw', ()) and \
                any(g['cond'] is not None and match(can, norm(g['cond'])) is not None and truth(g) is True for g in guards(sd, pushes[0]['blk']))
            if good:
                ctx.ok('C11.R5', 'declare_draw pushes DeclareDraw and returns true iff can_declare_draw()', where(sd.body))
            else:
                ctx.violation('C11.R5', 'game::Game::declare_draw:push', 'declare_draw does not push DeclareDraw exactly under can_declare_draw()', where(sd.body))
        else:
            ctx.violation('C11.R5', 'game::Game::declare_draw', 'declare_draw does not return can_declare_draw(): ' + sh(r, 200), where(sd.body))
