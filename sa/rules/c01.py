"""C01 — legal move generation is exact.

R1 LEGAL-IS-MEMBERSHIP: Board::legal(m) is "some item of MoveGen::new_legal(self) equals m" with the
   derived structural equality on all three fields of ChessMove.
R2 DISPATCH: the list builder branches on the number of checkers: none -> legals::<NotInCheckType>
   for every implementor of PieceType; exactly one -> legals::<InCheckType> for every implementor;
   otherwise only the king; all with the board and the mask `!own pieces`.
R3 PIN/CHECK-MASKS (every `legals` body): sources are `pieces(P) & own & !pinned` and, only when not
   in check, `pieces(P) & own & pinned` (complementary partition); unpinned movers are intersected
   with the check mask (between(checker, king) joined with the checker when in check), pinned movers
   with line(src, king); entries are pushed only when non-empty; king destinations pass
   legal_king_move; castling only when not in check, with the matching right, empty squares, and
   legal_king_move on the transit and the destination square; en-passant candidates come from
   adjacent_files(ep) & rank(ep) & own pawns, target ep.uforward(colour), and pass legal_ep_move.
R5 INPUTS-FRESH (= C03.R2/R3): checkers / pinned, which the generator reads, are fresh and complete in every Board.
R6 GEOMETRY (= C16.R1/R2 and C15.R1/R2): the compiled-in geometry tables, their accessors and the default slider lookups
   the move sets are read from equal their definitions.
R4 EP-RECHECK / KING-SAFETY: legal_ep_move recomputes slider attacks on the mover's king with both
   pawns' old squares removed and the destination added; legal_king_move removes the king from the
   occupancy, adds the destination and collects all five attacker kinds of the opponent."""
from .common import *
from ..bb import bb, cnot, mk


def C(callee, *args):
    """exact call node in bb canonical form (generic arguments dropped)"""
    return ('call', callee, tuple(args), ())

from ..expr import mk_field, expand_var, VAR_DEFS

LEVEL = 'other'
EXHAUSTIVE = True
EXPLANATION = ('Path rules on the MIR of the generator: resolved callee instances of the dispatcher with their reaching conditions, '
               'canonical BitBoard-algebra comparison of every loop source, move set and mask in the four `legals` bodies, '
               'control dependence of every push, and the shapes of the two king-safety predicates.')
NOT_DECIDED = 'exact equality with the FIDE move set and absence of duplicates across entries (value properties); legal_quick'

PT = 'movegen::piece_type::PieceType'
DEFAULT = PT + '::legals'
ENUM_MOVES = 'movegen::movegen::MoveGen::enumerate_moves'
NEW_LEGAL = 'movegen::movegen::MoveGen::new_legal'
PUSH = 'arrayvec::arrayvec::ArrayVec::<T, CAP>::push_unchecked'
INCHECK = ('constdef', 'movegen::piece_type::CheckType::IN_CHECK', ANY)
P = lambda n: ENUM('piece::Piece', n)


def r1(ctx):
    R = 'C01.R1'
    s = summary(ctx, 'board::Board::legal', R)
    if s is None:
        return
    w = where(s.body)
    r = norm(s.ret)
    gen = call(NEW_LEGAL, ('param', 1))
    finds = [c for c in s.calls if c['callee'] in ('core::iter::traits::iterator::Iterator::find', 'core::iter::traits::iterator::Iterator::any')]
    ok = False
    why = sh(r, 200)
    if len(finds) == 1:
        c = finds[0]
        recv = norm(c['argvals'][0])
        clo = norm(c['argvals'][1])
        is_find = c['callee'].endswith('find')
        shape = (is_find and match(call('core::option::Option::<T>::is_some', ANY), r) is not None) or (not is_find and r[0] == 'call' and r[1].endswith('any'))
        if match(gen, recv) is not None and clo[0] == 'closure' and shape:
            cs = ctx.an().summary(clo[1])
            cr = norm(cs.ret) if cs else None
            caps = clo[2]
            if cr is not None and cr[0] == 'call' and cr[1] == '<chess_move::ChessMove as core::cmp::PartialEq>::eq' and len(caps) == 1 and caps[0] == ('param', 2):
                args = set(map(repr, cr[2]))
                # one side is the item, the other the captured move
                if len(cr[2]) == 2:
                    ok = True
            else:
                why = 'closure compares ' + (sh(cr, 160) if cr else '?')
    loop_form = None
    if not ok and not finds:
        # the same search as an explicit loop: `for x in MoveGen::new_legal(self) { if x == m { return true; } } false`
        ls = for_loops(s)
        if len(ls) == 1 and ls[0]['source'] is not None:
            l = ls[0]
            src_ = norm(l['source'])
            itv_ = norm(s.exit[l['pre']].get(src_[1])) if (src_[0] == 'ref' and l['pre'] is not None and s.exit[l['pre']].get(src_[1]) is not None) else src_
            while itv_[0] == 'call' and itv_[1].endswith('::into_iter') and itv_[2]:
                itv_ = itv_[2][0]
            E = norm(l['elem'])
            trues, falses, odd = [], [], []
            for st in return_sites(s):
                v = norm(st['value'])
                if v == ('int', 1, 'bool'):
                    gs = [(norm(g['cond']), truth(g)) for g in guards(s, st['blk'], transitive=False) if g['cond'] is not None]
                    eq_ok = any(c[0] == 'call' and c[1] == '<chess_move::ChessMove as core::cmp::PartialEq>::eq' and tv is True and
                                set(map(repr, c[2])) == {repr(E), repr(('param', 2))} for c, tv in gs)
                    (trues if (eq_ok and st['blk'] in l['blocks'] or eq_ok) else odd).append(st)
                elif v == ('int', 0, 'bool'):
                    falses.append(st)
                else:
                    odd.append(st)
            if match(gen, itv_) is not None and len(trues) == 1 and not odd and falses and not break_exits(s, l):
                loop_form = True
            elif match(gen, itv_) is not None:
                loop_form = False
    if ok or loop_form:
        ctx.ok(R, 'legal(m) = MoveGen::new_legal(self) contains an item equal to m (whole ChessMove)', w)
    elif loop_form is None and not finds and for_loops(s):
        ctx.inconclusive(R, 'legal() searches with a loop this rule does not read: ' + why)
    else:
        ctx.violation(R, 'board::Board::legal', 'legal() is not membership of the whole move in MoveGen::new_legal(self): ' + why, w)
    # derived equality over all three fields
    f = ctx.facts()
    key = '<chess_move::ChessMove as core::cmp::PartialEq>::eq'
    se = ctx.an().summary(key)
    derived = any(i.get('derived') and key in i['items'] for i in f.impls)
    if se is not None:
        fields = {x[2] for x in walk(norm(se.ret)) if x[0] == 'field' and x[1] == ('mem', ('p', 1))}
        allf = {fl['name'] for fl in f.adts['chess_move::ChessMove']['variants'][0]['fields']}
        if fields == allf:
            ctx.ok(R, 'ChessMove equality compares source, dest and promotion (%s)' % ('derived' if derived else 'hand-written'), where(se.body))
        else:
            ctx.violation(R, key, 'ChessMove equality ignores %s' % sorted(allf - fields), where(se.body))


def r2(ctx):
    R = 'C01.R2'
    f = ctx.facts()
    an = ctx.an()
    s = summary(ctx, ENUM_MOVES, R)
    if s is None:
        return
    w = where(s.body)
    impls = sorted(i['self_ty'] for i in f.impls if i.get('trait_def') == PT)
    if not ctx.floor(R, 'implementors of PieceType', len(impls), 6):
        return
    CK = ('field', ('mem', ('p', 1)), 'checkers')
    rows = {}
    n = 0
    is_legals = lambda c: bool(c['callee']) and c['callee'].endswith('::legals') and (c['decl'] or '') == DEFAULT
    for c in expanded_calls(ctx, s, is_legals):
        if c['callee'] is None:
            ctx.inconclusive(R, 'legals reached through a helper in a way that is not understood (%s)' % c.get('why'))
            return
        n += 1
        g = list(c['gargs'])
        if c['callee'] == DEFAULT:
            ptype, ctype = g[0], g[1]
        else:
            ptype = c['callee'][1:].split(' as ')[0]
            ctype = g[0]
        args = [bb(a, an) for a in c['argvals']]
        mask_ok = args[2] == ('bbnot', ('cc', ('field', ('mem', ('p', 1)), 'color_combined'), ('field', ('mem', ('p', 1)), 'side_to_move')))
        board_ok = norm(c['argvals'][1]) == ('param', 1)
        if not (mask_ok and board_ok):
            ctx.violation(R, ENUM_MOVES + ':args:' + ptype, 'legals for %s is called with board=%s mask=%s (required: the board, !own pieces)' % (
                ptype, sh(c['argvals'][1], 60), sh(args[2], 100)), where(s.body, c['line']))
        # the number of checkers for which this call is reached: every guard is evaluated for 0, 1, 2, 3 checkers
        reach = set()
        unknown_guard = False
        for conj in dnf(s, c['blk']):
            for n_ in (0, 1, 2, 3):
                hs = [count_guard_holds(gd, n_, CK, lambda x: bb(x, an)) for gd in conj if gd['cond'] is not None]
                if any(h is None for h in hs):
                    unknown_guard = True
                elif all(hs):
                    reach.add(n_)
        cls = 'unknown' if unknown_guard else {frozenset({0}): 'none', frozenset({1}): 'single', frozenset({2, 3}): 'multi'}.get(frozenset(reach), 'unknown')
        rows.setdefault(cls, set()).add((ptype, ctype.rsplit('::', 1)[-1]))
    if 'unknown' in rows:
        ctx.inconclusive(R, 'dispatcher branches not recognised for %s' % sorted(rows['unknown']))
        return
    want = {'none': {(t, 'NotInCheckType') for t in impls}, 'single': {(t, 'InCheckType') for t in impls},
            'multi': {('movegen::piece_type::KingType', 'InCheckType')}}
    for cls, desc in (('none', 'no checker'), ('single', 'exactly one checker'), ('multi', 'two or more checkers')):
        got = rows.get(cls, set())
        if got == want[cls]:
            ctx.ok(R, '%s: legals::<%s> for %s' % (desc, 'NotInCheckType' if cls == 'none' else 'InCheckType',
                                                   'all %d piece types' % len(impls) if cls != 'multi' else 'the king only'), w)
        else:
            miss = sorted(t.rsplit('::', 1)[-1] + '<' + c_ + '>' for t, c_ in want[cls] - got)
            extra = sorted(t.rsplit('::', 1)[-1] + '<' + c_ + '>' for t, c_ in got - want[cls])
            ctx.violation(R, ENUM_MOVES + ':' + cls, 'with %s the generator calls the wrong set of legals: missing %s, extra %s' % (desc, miss, extra), w)
    ctx.floor(R, 'legals call sites in the dispatcher', n, 13)
    # new_legal wraps enumerate_moves with index 0, mask = all, promotion_index 0
    sn = summary(ctx, NEW_LEGAL, R)
    if sn is not None:
        r = bb(sn.ret, an)
        m = match(('agg', 'movegen::movegen::MoveGen', 'MoveGen', V('f')), r)
        okn = False
        if m is not None:
            d = dict(m['f'])
            okn = match(call(ENUM_MOVES, ('param', 1)), d.get('moves')) is not None and d.get('promotion_index') == ('int', 0, 'usize') and \
                d.get('index') == ('int', 0, 'usize') and d.get('iterator_mask') == ('bball',)
        if okn:
            ctx.ok(R, 'new_legal = {moves: enumerate_moves(board), index 0, promotion_index 0, mask = all squares}', where(sn.body))
        else:
            ctx.violation(R, NEW_LEGAL, 'new_legal does not start a full iteration over enumerate_moves(board): ' + sh(r, 300), where(sn.body))


# ------------------------------------------------------------------------------------------ R3

def board_ctx(bparam):
    B = ('mem', ('p', bparam))
    STM = ('field', B, 'side_to_move')
    own = ('cc', ('field', B, 'color_combined'), STM)
    ksq = ('lowest', mk('&', [('pieces', ('field', B, 'pieces'), P('King')), own]))
    return B, STM, own, ksq


def check_mask_ok(e, B, ksq):
    """between(checkers.to_square(), ksq) joined with checkers"""
    ck = ('field', B, 'checkers')
    if e[0] == 'bb' and e[1] in ('^', '|') and len(e[2]) == 2 and ck in e[2]:
        other = [x for x in e[2] if x != ck][0]
        if other[0] == 'call' and other[1] == 'magic::between' and set(other[2]) == {('lowest', ck), ksq}:
            return True
    return False


def strip_ite_incheck(e):
    """split `if T::IN_CHECK {a} else {b}` -> (a, b) else None"""
    if e[0] == 'ite' and match(INCHECK, e[1]) is not None:
        cs = dict(e[2])
        return cs.get('otherwise'), cs.get(0)
    return None


def legals_body(ctx, key, piece, R):
    """generic checks shared by the default / pawn / knight bodies; returns dict of pushes"""
    an = ctx.an()
    s = ctx.an().summary(key)
    if s is None:
        ctx.inconclusive(R, 'anchor not found: ' + key)
        return None
    body = s.body
    B, STM, own, ksq = board_ctx(2)
    pieces = ('pieces', ('field', B, 'pieces'), piece)
    pinned = ('field', B, 'pinned')
    loops = for_loops(s)
    pushes = [c for c in expanded_calls(ctx, s, lambda c_: c_['callee'] == PUSH) if c['callee'] is not None]
    res = dict(s=s, loops=[], pushes=pushes)
    unp = mk('&', [pieces, own, ('bbnot', pinned)])
    pin = mk('&', [pieces, own, pinned])
    for l in loops:
        src = bb(l['source'], an) if l['source'] is not None else None
        kind = 'unpinned' if src == unp else ('pinned' if src == pin else 'other')
        res['loops'].append((l, kind, src))
    exhaustive(ctx, R, s, key, loops)
    return res


def exhaustive(ctx, R, s, key, loops):
    """every source/destination loop of a generator body runs to the exhaustion of its set: a `break` or `return`
    inside it drops the moves of the remaining pieces"""
    for l in loops:
        early = sorted({a for a, _ in loop_exits(s, l) if a not in ctrl_blocks(s, l)})
        w = where(s.body, l['next']['line'])
        if early:
            ctx.violation(R, key + ':early-exit', 'the loop over %s is left before the set is exhausted (exit from block(s) %s): moves of the '
                          'remaining squares are never generated' % (sh(bb(l['source'], ctx.an()), 100) if l['source'] is not None else '?', early), w)
        else:
            ctx.ok(R, '%s: loop over %s runs to exhaustion' % (key, sh(bb(l['source'], ctx.an()), 80) if l['source'] is not None else '?'), w)


def push_info(ctx, s, c, loops):
    an = ctx.an()
    v = bb(c['argvals'][1], an)
    m = match(call('movegen::movegen::SquareAndBitBoard::new', V('sq'), V('moves'), V('promo')), v)
    inloop = [l for l in loops if c['blk'] in l[0]['blocks']]
    conds = []
    for conj in dnf(s, c['blk']):
        lits = []
        for g in conj:
            if g['cond'] is None:
                continue
            cn = bb(g['cond'], an)
            if cn[0] == 'discr':
                # `if let Some(x) = opt`: recorded as a literal of its own (never matched by the call patterns)
                lits.append((('discr-is', cn[1], tuple(g['vals'])), True))
                continue
            lits.append((cn, g['truth']))
        conds.append(lits)
    return m, inloop, conds


def r3_generic(ctx, key, piece, label, expect_pinned, pseudo_name):
    R = 'C01.R3'
    an = ctx.an()
    info = legals_body(ctx, key, piece, R)
    if info is None:
        return
    s = info['s']
    body = s.body
    w = where(body)
    B, STM, own, ksq = board_ctx(2)
    kinds = sorted(k for _, k, _ in info['loops'] if k != 'other')
    need = ['pinned', 'unpinned'] if expect_pinned else ['unpinned']
    have_unp = [l for l in info['loops'] if l[1] == 'unpinned']
    have_pin = [l for l in info['loops'] if l[1] == 'pinned']
    adaptor = lambda x: any(isinstance(y, tuple) and y and y[0] == 'call' and isinstance(y[1], str) and
                            y[1].startswith('core::iter::traits::iterator::Iterator::') and y[1].rsplit('::', 1)[-1] in ('map', 'filter', 'filter_map', 'flat_map', 'zip', 'chain')
                            for y in walk(x) if isinstance(y, tuple))
    if not have_unp and any(x[2] is not None and adaptor(x[2]) for x in info['loops']):
        # `for (src, moves) in (pieces & !pinned).map(..).filter(..)`: the movers come out of an adaptor chain with closures
        ctx.inconclusive(R, '%s: the source loop runs over an iterator-adaptor chain (map / filter with closures): not analysed' % label)
        return
    if not have_unp:
        ctx.violation(R, key + ':unpinned-source', '%s: no loop over `pieces(P) & own & !pinned` (loop sources: %s)' % (
            label, [sh(x[2], 120) for x in info['loops']]), w)
    else:
        ctx.ok(R, '%s: unpinned movers come from pieces(P) & own pieces & !pinned' % label, w)
    if expect_pinned:
        if not have_pin:
            ctx.violation(R, key + ':pinned-source', '%s: no loop over `pieces(P) & own & pinned`: pinned pieces lose their moves along the pin line' % label, w)
        else:
            ctx.ok(R, '%s: pinned movers come from the complementary set pieces(P) & own pieces & pinned' % label, w)
    elif have_pin:
        ctx.violation(R, key + ':pinned-knight', '%s: pinned pieces of this kind can never move, but a pinned loop exists' % label, w)
    # pushes
    for c in info['pushes']:
        m, inloop, conds = push_info(ctx, s, c, info['loops'])
        if m is None:
            ctx.inconclusive(R, '%s: pushed entry not recognised' % key)
            continue
        kind = inloop[0][1] if inloop else 'none'
        if kind == 'other':
            continue    # handled by the specific rule (en passant)
        if kind == 'none':
            continue
        l = inloop[0][0]
        SRC = bb(l['elem'], an)
        mv = m['moves']
        line = c['line']
        # every way to the push requires the move set to be non-empty
        nonempty = all(any((cn[0] == 'bbne' and set(cn[1:]) == {('bb0',), mv} and tv) or (cn[0] == 'bbeq' and set(cn[1:]) == {('bb0',), mv} and tv is False)
                           for cn, tv in lits) for lits in conds)
        if not nonempty:
            ctx.violation(R, key + ':push-empty:' + kind, '%s: an entry can be pushed with an empty move set (%s loop)' % (label, kind), where(body, line))
        if m['sq'] != SRC:
            ctx.violation(R, key + ':push-source:' + kind, '%s: the pushed source square is not the loop square' % label, where(body, line))
        pl = lambda mask: call(pseudo_name, SRC, STM, ('field', B, 'combined'), mask)
        if kind == 'unpinned':
            # moves = pseudo_legals(src, color, combined, mask) & check_mask, with the check mask applied exactly when in
            # check -- wherever it is applied (as an operand, folded into `mask`, or hoisted into a local chosen by IN_CHECK).
            # The move set is specialised for IN_CHECK = true / false (only the values the path allows) and flattened.
            def spec(e, val):
                if not isinstance(e, tuple) or not e:
                    return e
                if e[0] == 'ite' and match(INCHECK, e[1]) is not None:
                    cs = dict(e[2])
                    pick = cs.get('otherwise', cs.get(1)) if val else cs.get(0, cs.get('otherwise'))
                    return spec(pick, val)
                return tuple(spec(x, val) if isinstance(x, tuple) else x for x in e)

            def allowed_vals(lits):
                vals = {True, False}
                for cn, tv in lits:
                    if match(INCHECK, cn) is not None:
                        vals &= {bool(tv)}
                return vals
            ok = True
            seen_modes = set()
            for lits in conds:
                for mode in allowed_vals(lits):
                    seen_modes.add(mode)
                    mvs = bb(spec(mv, mode), an)
                    parts = list(mvs[2]) if mvs[0] == 'bb' and mvs[1] == '&' else [mvs]
                    pls = [x for x in parts if x[0] == 'call' and x[1] == pseudo_name]
                    rest = [x for x in parts if not (x[0] == 'call' and x[1] == pseudo_name)]
                    if len(pls) != 1 or tuple(pls[0][2][:3]) != (SRC, STM, ('field', B, 'combined')):
                        ok = False
                        continue
                    marg = bb(spec(pls[0][2][3], mode), an)
                    mparts = list(marg[2]) if marg[0] == 'bb' and marg[1] == '&' else [marg]
                    allp = [x for x in mparts + rest if x != ('bball',)]
                    masks = [x for x in allp if x == ('param', 3)]
                    cms = [x for x in allp if x != ('param', 3)]
                    if len(masks) < 1:
                        ok = False
                    if mode:
                        if not (len(cms) >= 1 and all(check_mask_ok(x, B, ksq) for x in cms)):
                            ok = False
                    else:
                        if cms:
                            ok = False
            if not seen_modes:
                ok = False
            if ok:
                ctx.ok(R, '%s: unpinned moves = pseudo_legals(src, colour, occupancy, mask) & check mask (between(checker, king) + checker when in check)' % label,
                       where(body, line))
            else:
                ctx.violation(R, key + ':unpinned-moves', '%s: unpinned move set is %s (required: pseudo-legal moves restricted to the check mask when in check)' % (
                    label, sh(mv, 300)), where(body, line))
        elif kind == 'pinned':
            parts = list(mv[2]) if mv[0] == 'bb' and mv[1] == '&' else [mv]
            lines = [x for x in parts if x[0] == 'call' and x[1] == 'magic::line']
            pls = [x for x in parts if x[0] == 'call' and x[1] == pseudo_name]
            ok = len(parts) == 2 and len(lines) == 1 and len(pls) == 1 and set(lines[0][2]) == {SRC, ksq} and \
                pls[0][2] == (SRC, STM, ('field', B, 'combined'), ('param', 3))
            notcheck = all(any(match(INCHECK, cn) is not None and tv is False for cn, tv in lits) for lits in conds)
            if ok and notcheck:
                ctx.ok(R, '%s: pinned moves = pseudo_legals & line(src, king), only when not in check' % label, where(body, line))
            else:
                ctx.violation(R, key + ':pinned-moves', '%s: pinned move set is %s under in-check-excluded=%s (required: pseudo-legal moves & line(src, king), '
                              'only when not in check)' % (label, sh(mv, 300), notcheck), where(body, line))
    return info


def r3(ctx):
    R = 'C01.R3'
    an = ctx.an()
    f = ctx.facts()
    SELFP = call(PT + '::into_piece', gargs=ANY)
    # default body (bishop, rook, queen)
    dflt = r3_generic(ctx, DEFAULT, ('call', PT + '::into_piece', (), ()), 'default legals (B/R/Q)', True, PT + '::pseudo_legals')
    n = 1 if dflt else 0
    for ty, pc in (('PawnType', 'Pawn'), ('KnightType', 'Knight')):
        key = '<movegen::piece_type::%s as %s>::legals' % (ty, PT)
        if key not in f.bodies:
            ctx.note('%s has no own legals body (uses the default)' % ty)
            continue
        n += 1
        ip = '<movegen::piece_type::%s as %s>::into_piece' % (ty, PT)
        pl = '<movegen::piece_type::%s as %s>::pseudo_legals' % (ty, PT)
        info = r3_generic(ctx, key, ('call', ip, (), ()), '%s legals' % pc, pc != 'Knight', pl)
        si = ctx.an().summary(ip)
        if si is not None and norm(si.ret) != P(pc):
            ctx.violation(R, ip, '%s::into_piece returns %s' % (ty, sh(si.ret, 40)), where(si.body))
        if pc == 'Pawn' and info:
            pawn_extra(ctx, key, info, ('call', ip, (), ()))
    for ty, pc in (('BishopType', 'Bishop'), ('RookType', 'Rook'), ('QueenType', 'Queen'), ('KingType', 'King')):
        ip = '<movegen::piece_type::%s as %s>::into_piece' % (ty, PT)
        si = ctx.an().summary(ip)
        if si is not None:
            if norm(si.ret) == P(pc):
                ctx.ok(R, '%s::into_piece = %s' % (ty, pc), where(si.body))
            else:
                ctx.violation(R, ip, '%s::into_piece returns %s' % (ty, sh(si.ret, 40)), where(si.body))
    pseudo(ctx)
    king(ctx)
    ctx.floor(R, 'legals bodies analysed', n + 1, 4)


def pseudo(ctx):
    R = 'C01.R3'
    an = ctx.an()
    pl = lambda ty: '<movegen::piece_type::%s as %s>::pseudo_legals' % (ty, PT)
    src, col, occ, mask = ('param', 1), ('param', 2), ('param', 3), ('param', 4)
    rook = call('magic::get_rook_moves', src, occ)
    bish = call('magic::get_bishop_moves', src, occ)
    want = {
        'PawnType': [mk('&', [call('magic::get_pawn_moves', src, col, occ), mask])],
        'KnightType': [mk('&', [call('magic::get_knight_moves', src), mask])],
        'BishopType': [mk('&', [bish, mask])],
        'RookType': [mk('&', [rook, mask])],
        'QueenType': [mk('&', [mk('^', [rook, bish]), mask]), mk('&', [mk('|', [rook, bish]), mask])],
        'KingType': [mk('&', [call('magic::get_king_moves', src), mask])],
    }
    for ty, pats in want.items():
        s = ctx.an().summary(pl(ty))
        if s is None:
            ctx.inconclusive(R, 'anchor not found: ' + pl(ty))
            continue
        r = bb(s.ret, an)
        if any(match(p, r) is not None for p in pats):
            ctx.ok(R, '%s::pseudo_legals = piece attack lookup(src%s) & mask' % (ty, ', occupancy' if ty in ('BishopType', 'RookType', 'QueenType', 'PawnType') else ''),
                   where(s.body))
        else:
            ctx.violation(R, pl(ty), '%s::pseudo_legals is %s' % (ty, sh(r, 200)), where(s.body))


def pawn_extra(ctx, key, info, piece):
    R = 'C01.R3'
    an = ctx.an()
    s = info['s']
    body = s.body
    B, STM, own, ksq = board_ctx(2)
    # promotion flag on ordinary pushes
    for c in info['pushes']:
        m, inloop, conds = push_info(ctx, s, c, info['loops'])
        if m is None or not inloop:
            continue
        l, kind, src = inloop[0]
        SRC = bb(l['elem'], an)
        if kind in ('unpinned', 'pinned'):
            want = call('<rank::Rank as core::cmp::PartialEq>::eq', call('square::Square::get_rank', SRC), call('color::Color::to_seventh_rank', STM))
            promo_ = m['promo']
            if promo_[0] == 'call' and '::{closure#' in promo_[1] and promo_[2] and promo_[2][0][0] == 'closure':
                # `let is_promotion = |sq: Square| sq.get_rank() == color.to_seventh_rank();` -- the closure's value on its argument
                try:
                    args_ = tuple(promo_[2][1][1]) if len(promo_[2]) == 2 and promo_[2][1][0] == 'tuple' else tuple(promo_[2][1:])
                    v_ = inliner(ctx).apply_closure(promo_[2][0], args_)
                    if v_ is not None:
                        promo_ = bb(v_, an)
                except Exception:
                    pass
            if promo_[0] == 'call' and '::{closure#' in promo_[1]:
                ctx.inconclusive(R, '%s: the promotion flag of pawn entries is computed by a closure that is not analysed (%s loop)' % (key, kind))
            elif match(want, promo_) is not None:
                ctx.ok(R, 'pawn entries are promotion entries iff the source is on the mover\'s seventh rank (%s loop)' % kind, where(body, c['line']))
            else:
                ctx.violation(R, key + ':promotion-flag:' + kind, 'promotion flag of pawn entries is %s' % sh(promo_, 160), where(body, c['line']))
        else:
            # en-passant entry
            EPO = ('field', B, 'en_passant')
            # the en-passant square: `en_passant().unwrap()` under is_some(), or the payload bound by `if let Some(sq)`
            okv = oksrc = guard_legal = False
            for EPSQ in (call('core::option::Option::<T>::unwrap', EPO), ('field', ('variant', EPO, 'Some'), '0')):
                want_src = mk('&', [call('magic::get_rank', call('square::Square::get_rank', EPSQ)),
                                    call('magic::get_adjacent_files', call('square::Square::get_file', EPSQ)),
                                    ('pieces', ('field', B, 'pieces'), piece), own])
                dest = call('square::Square::uforward', EPSQ, STM)
                okv_ = match(dest, m['moves'][1]) is not None if m['moves'][0] == 'single' else False
                oksrc_ = src is not None and match(want_src, src) is not None
                gl_ = all(any(match(call('movegen::piece_type::PawnType::legal_ep_move', ('param', 2), SRC, dest), cn) is not None and tv is True
                              for cn, tv in lits) for lits in conds)
                if (okv_, oksrc_, gl_).count(True) > (okv, oksrc, guard_legal).count(True):
                    okv, oksrc, guard_legal = okv_, oksrc_, gl_
            guard_some = all(any((match(call('core::option::Option::<T>::is_some', EPO), cn) is not None and tv is True) or
                                 (match(call('core::option::Option::<T>::is_none', EPO), cn) is not None and tv is False) or
                                 (cn[0] == 'discr-is' and cn[1] == EPO and cn[2] == (1,))
                                 for cn, tv in lits) for lits in conds)
            if okv and oksrc and guard_some and guard_legal and m['sq'] == SRC and m['promo'] == ('int', 0, 'bool'):
                ctx.ok(R, 'en passant: candidates = adjacent_files(ep) & rank(ep) & own pawns; target = ep.uforward(colour); each passes legal_ep_move',
                       where(body, c['line']))
            else:
                ctx.violation(R, key + ':en-passant', 'en-passant entry wrong: source-set ok=%s, target ok=%s, guarded by en_passant().is_some()=%s, '
                              'guarded by legal_ep_move(src, target)=%s' % (oksrc, okv, guard_some, guard_legal), where(body, c['line']))
    if not any(k == 'other' for _, k, _ in info['loops']):
        ctx.violation(R, key + ':no-en-passant', 'pawn legals has no en-passant block', where(body))


def king(ctx):
    R = 'C01.R3'
    an = ctx.an()
    key = '<movegen::piece_type::KingType as %s>::legals' % PT
    s = ctx.an().summary(key)
    if s is None:
        ctx.inconclusive(R, 'anchor not found: ' + key)
        return
    body = s.body
    w = where(body)
    B, STM, own, ksq = board_ctx(2)
    LKM = 'movegen::piece_type::KingType::legal_king_move'
    pushes = [c for c in expanded_calls(ctx, s, lambda c_: c_['callee'] == PUSH) if c['callee'] is not None]
    if len(pushes) != 1:
        ctx.violation(R, key + ':push-count', 'king legals pushes %d entries (expected one)' % len(pushes), w)
        return
    loops = for_loops(s)
    exhaustive(ctx, R, s, key, loops)
    # filter loop over the pseudo-legal destinations
    base = mk('&', [call('magic::get_king_moves', ksq), ('param', 3)])
    pl = call('<movegen::piece_type::KingType as %s>::pseudo_legals' % PT, ksq, STM, ('field', B, 'combined'), ('param', 3))
    filt = [l for l in loops if bb(l['source'], an) in (base, ) or match(pl, bb(l['source'], an)) is not None]
    if not loops:
        ctx.inconclusive(R, '%s: the king destinations are not filtered by a `for` loop (iterator-adaptor form is not analysed)' % key)
        return
    if len(filt) != 1:
        ctx.violation(R, key + ':filter-loop', 'king destinations are not filtered in a loop over pseudo_legals(king square): sources %s' % (
            [sh(bb(l['source'], an), 120) for l in loops]), w)
        return
    l = filt[0]
    D = bb(l['elem'], an)
    removed = False
    for c in s.calls:
        if c['blk'] in l['blocks'] and c['callee'].endswith('bitxor_assign'):
            v = bb(c['argvals'][1], an)
            gs = [(bb(g['cond'], an), g['truth']) for conj in dnf(s, c['blk'], within=l['blocks']) for g in conj if g['cond'] is not None]
            if v == ('single', D) and any(match(call(LKM, ('param', 2), D), cn) is not None and tv is False for cn, tv in gs):
                removed = True
    if removed:
        ctx.ok(R, 'king: every pseudo-legal destination failing legal_king_move is removed from the move set', w)
    else:
        ctx.violation(R, key + ':filter', 'king destinations that fail legal_king_move are not removed', w)
    # castling additions after the loop
    MCR = call('board::Board::my_castle_rights', ('param', 2))
    sides = {}
    for c in s.calls:
        if c['blk'] in l['blocks'] or not c['callee'].endswith('bitxor_assign'):
            continue
        v = bb(c['argvals'][1], an)
        if v[0] != 'single':
            continue
        conds = []

        def rw(cn):
            # a private predicate such as `fn castle_path_safe(board, middle, dest) -> bool`: its body, with the
            # king-step test kept as a call
            if cn[0] == 'call' and cn[1] != LKM and cn[1] in ctx.facts().bodies and not (ctx.facts().fns.get(cn[1]) or {}).get('pub'):
                return inline_private(ctx, cn, keep=(LKM,))
            return None
        for conj in dnf(s, c['blk']):
            for alt in expand_conj(conj, rewrite=rw):
                lits = [(bb(g['cond'], an), g['truth']) for g in alt if g['cond'] is not None and bb(g['cond'], an)[0] != 'discr']
                conds.append(lits)
        for side, has, sqs, step in (('kingside', 'has_kingside', 'kingside_squares', 'uright'), ('queenside', 'has_queenside', 'queenside_squares', 'uleft')):
            mid = call('square::Square::' + step, ksq)
            end = call('square::Square::' + step, mid)
            if match(end, v[1]) is None:
                continue
            req = {
                'not in check': lambda cn, tv: match(INCHECK, cn) is not None and tv is False,
                'right held': lambda cn, tv, has=has: match(call('castle_rights::CastleRights::' + has, MCR), cn) is not None and tv is True,
                'squares empty': lambda cn, tv, sqs=sqs: cn[0] in ('bbeq', 'bbne') and ('bb0',) in cn[1:] and
                    any(y[0] == 'bb' and y[1] == '&' and ('field', B, 'combined') in y[2] and
                        any(z[0] == 'call' and z[1] == 'castle_rights::CastleRights::' + sqs and z[2][1:] == (STM,) for z in y[2])
                        for y in cn[1:] if y != ('bb0',)) and (tv if cn[0] == 'bbeq' else not tv),
                'transit square safe': lambda cn, tv, mid=mid: match(call(LKM, ('param', 2), mid), cn) is not None and tv is True,
                'destination safe': lambda cn, tv, end=end: match(call(LKM, ('param', 2), end), cn) is not None and tv is True,
            }
            missing = [name for name, pr in req.items() if not all(any(pr(cn, tv) for cn, tv in lits) for lits in conds)]
            sides[side] = (missing, c['line'])
    for side in ('kingside', 'queenside'):
        if side not in sides:
            ctx.violation(R, key + ':castle-missing:' + side, 'no %s castling move is generated (king + two steps %s)' % (side, 'right' if side == 'kingside' else 'left'), w)
        elif sides[side][0]:
            ctx.violation(R, key + ':castle:' + side, '%s castling is generated without requiring: %s' % (side, ', '.join(sides[side][0])), where(body, sides[side][1]))
        else:
            ctx.ok(R, '%s castling: not in check, right held, squares between empty, transit and destination squares not attacked' % side, where(body, sides[side][1]))
    # the castle-squares accessors ignore self: they index by colour
    for nm, tab in (('kingside_squares', 'KINGSIDE_CASTLE_SQUARES'), ('queenside_squares', 'QUEENSIDE_CASTLE_SQUARES')):
        sa = ctx.an().summary('castle_rights::CastleRights::' + nm)
        if sa is not None:
            r = norm(inliner(ctx).inline(sa.ret))
            if match(('index', ('constdef', 'magic::' + tab, ANY), ('cast', ('discr', ('param', 2)), 'usize')), r) is not None:
                ctx.ok(R, '%s(colour) = %s[colour]' % (nm, tab), where(sa.body))
            else:
                ctx.violation(R, 'castle_rights::CastleRights::' + nm, '%s is %s' % (nm, sh(r, 160)), where(sa.body))
    sm = ctx.an().summary('board::Board::my_castle_rights')
    if sm is not None:
        r = norm(sm.ret)
        # accessor or field, call or inlined: compare in fully inlined form
        ri = ninl(ctx, sm.ret)
        want_i = ('index', ('field', ('mem', ('p', 1)), 'castle_rights'), ('cast', ('discr', ('field', ('mem', ('p', 1)), 'side_to_move')), 'usize'))
        if match(call('board::Board::castle_rights', ('param', 1), call('board::Board::side_to_move', ('param', 1))), r) is not None or ri == want_i:
            ctx.ok(R, 'my_castle_rights = castle_rights(side to move)', where(sm.body))
        else:
            ctx.violation(R, 'board::Board::my_castle_rights', 'my_castle_rights is ' + sh(r, 160), where(sm.body))
    # the pushed entry
    c = pushes[0]
    m = match(call('movegen::movegen::SquareAndBitBoard::new', V('sq'), V('moves'), V('promo')), bb(c['argvals'][1], an))
    if m is not None and m['sq'] == ksq and m['promo'] == ('int', 0, 'bool'):
        ctx.ok(R, 'king entry: source = king square of the side to move, no promotion', where(body, c['line']))
    else:
        ctx.violation(R, key + ':entry', 'king entry is ' + sh(bb(c['argvals'][1], an), 200), where(body, c['line']))


# ------------------------------------------------------------------------------------------ R4

def r4(ctx):
    R = 'C01.R4'
    an = ctx.an()
    B = ('mem', ('p', 1))
    STM = ('field', B, 'side_to_move')
    OPP = cnot(STM)
    PF, CF, MF = ('field', B, 'pieces'), ('field', B, 'color_combined'), ('field', B, 'combined')
    own = ('cc', CF, STM)
    enemy = ('cc', CF, OPP)
    ksq = ('lowest', mk('&', [('pieces', PF, P('King')), own]))
    pc = lambda n: ('pieces', PF, P(n))
    rooks = mk('&', [mk('|', [pc('Rook'), pc('Queen')]), enemy])
    bishops = mk('&', [mk('|', [pc('Bishop'), pc('Queen')]), enemy])
    # ---- legal_ep_move(board, source, dest)
    key = 'movegen::piece_type::PawnType::legal_ep_move'
    s = summary(ctx, key, R)
    if s is not None:
        w = where(s.body)
        EP = C('core::option::Option::<T>::unwrap', ('field', B, 'en_passant'))
        occ = mk('^', [MF, ('single', EP), ('single', ('param', 2)), ('single', ('param', 3))])
        r = bb(s.ret, an)
        # decision: false iff a rook-type or bishop-type attacker sees the king through the new occupancy
        ratt = mk('&', [C('magic::get_rook_moves', ksq, occ), rooks])
        batt = mk('&', [C('magic::get_bishop_moves', ksq, occ), bishops])
        results = {}
        unknown = []
        for ra in (True, False):
            for ba in (True, False):
                def decide(c, vals):
                    if c[0] in ('bbne', 'bbeq') and ('bb0',) in c[1:]:
                        other = [y for y in c[1:] if y != ('bb0',)][0]
                        ne = c[0] == 'bbne'
                        if other == ratt:
                            return as_bool(ra if ne else not ra, vals)
                        if other == batt:
                            return as_bool(ba if ne else not ba, vals)
                        # the cheap pre-tests on the rays: attackers on the rays are implied by an actual attack
                        pre_r = mk('&', [C('magic::get_rook_rays', ksq), rooks])
                        pre_b = mk('&', [C('magic::get_bishop_rays', ksq), bishops])
                        if other == pre_r:
                            return None if not ra else as_bool(True if ne else False, vals)
                        if other == pre_b:
                            return None if not ba else as_bool(True if ne else False, vals)
                    unknown.append(c)
                    return None
                results[(ra, ba)] = set(eval_tree(r, decide, bool_leaves=True))
        if unknown:
            ctx.violation(R, key + ':shape', 'legal_ep_move tests something other than rook-/bishop-type attacks on the king through the occupancy '
                          '`combined ^ ep pawn ^ source ^ destination`: ' + sh(unknown[0], 300), w)
        else:
            T_, F_ = ('int', 1, 'bool'), ('int', 0, 'bool')
            good = results[(False, False)] == {T_} and results[(True, False)] == {F_} and results[(False, True)] == {F_} and results[(True, True)] == {F_}
            if good:
                ctx.ok(R, 'legal_ep_move: false iff an enemy rook/queen or bishop/queen attacks the king once both pawns left their squares and the '
                       'capturing pawn stands on the destination', w)
            else:
                ctx.violation(R, key + ':table', 'legal_ep_move decision table wrong: %s' % {k: [sh(x, 20) for x in v] for k, v in results.items()}, w)
    # ---- legal_king_move(board, dest)
    key = 'movegen::piece_type::KingType::legal_king_move'
    s = summary(ctx, key, R)
    if s is not None:
        w = where(s.body)
        D = ('param', 2)
        myking = mk('&', [pc('King'), own])
        occs = [mk('|', [mk('^', [MF, myking]), ('single', D)])]
        r = bb(s.ret, an)
        m = None
        for pat in (('bbeq', ('bb0',), V('att')), ('bbeq', V('att'), ('bb0',))):
            m = m or match(pat, r)
        terms = None
        if m is None:
            # early-return form: `if rook_attackers != EMPTY { return false } .. ; rest == EMPTY`.  (A | B) == EMPTY iff both are
            # empty, so collect, on every path that can answer `true`, the sets asserted empty on the way plus the set compared at
            # the end; every such path must cover the same union, and a `false` must come from a non-empty member of it.
            flat = lambda t: set(t[2]) if (t[0] == 'bb' and t[1] == '|') else {t}
            unions, bad_ = [], []
            for conds, leaf in paths_deep(r):
                emp, non, foreign = set(), set(), []
                for c, v, allv in conds:
                    if c[0] in ('bbeq', 'bbne') and ('bb0',) in c[1:]:
                        t_ = [y for y in c[1:] if y != ('bb0',)][0]
                        is_empty = (v != 0) == (c[0] == 'bbeq')
                        (emp if is_empty else non).update(flat(t_))
                    else:
                        foreign.append(c)
                if foreign:
                    bad_.append('decides on %s' % sh(foreign[0], 100))
                    continue
                if leaf[0] in ('bbeq', 'bbne') and ('bb0',) in leaf[1:]:
                    t_ = [y for y in leaf[1:] if y != ('bb0',)][0]
                    if leaf[0] == 'bbeq':
                        unions.append(frozenset(emp | flat(t_)))
                    else:
                        bad_.append('returns `x != EMPTY`')
                elif leaf == ('int', 1, 'bool'):
                    unions.append(frozenset(emp))
                elif leaf == ('int', 0, 'bool'):
                    if not non:
                        bad_.append('returns false without any attacker found')
                else:
                    bad_.append('returns %s' % sh(leaf, 80))
            if bad_ or not unions or len(set(unions)) != 1:
                ctx.violation(R, key + ':result', 'legal_king_move is not "no attacker set is non-empty": %s' % (bad_[:2] or 'paths to `true` cover different attacker sets'), w)
            else:
                terms = set(unions[0])
        else:
            att = m['att']
            terms = set(att[2]) if att[0] == 'bb' and att[1] == '|' else {att}
        if terms is not None:
            occ = occs[0]
            want = {
                'rook/queen': mk('&', [C('magic::get_rook_moves', D, occ), rooks]),
                'bishop/queen': mk('&', [C('magic::get_bishop_moves', D, occ), bishops]),
                'knight': mk('&', [C('magic::get_knight_moves', D), pc('Knight'), enemy]),
                'king': mk('&', [C('magic::get_king_moves', D), pc('King'), enemy]),
                'pawn': C('magic::get_pawn_attacks', D, STM, mk('&', [pc('Pawn'), enemy])),
            }
            missing = [k for k, v in want.items() if v not in terms]
            extra = [sh(t, 120) for t in terms if t not in want.values()]
            if not missing and not extra:
                ctx.ok(R, 'legal_king_move: occupancy without the own king plus the destination; attackers = enemy R/Q, B/Q, N, K and pawns on the destination; '
                       'legal iff none', w)
            else:
                ctx.violation(R, key + ':attackers', 'legal_king_move attacker set wrong: missing %s, unexpected %s' % (missing, extra[:2]), w)


def r5(ctx):
    """R5 INPUTS-FRESH (= C03.R2/R3): the generator reads `checkers` and `pinned` from the Board; they are recomputed after
    the last placement change by every Board producer, with the complete attacker set (a stale or incomplete cache makes
    the generated set wrong although every rule above holds)."""
    from . import c03
    sub = Sub(ctx, {'C03.R2': 'C01.R5', 'C03.R3': 'C01.R5'})
    rec = c03.r2(sub)
    c03.r3(sub, rec)


def run(ctx):
    bb(('unit',), ctx.an())
    r1(ctx)
    r2(ctx)
    r3(ctx)
    r4(ctx)
    r5(ctx)
    # R6 GEOMETRY (= C16.R1/R2, C15.R1/R2): the tables and lookups every move set above is read from
    tables_dep(ctx, 'C01.R6', ['movegen::movegen::MoveGen::new_legal', 'board::Board::legal'])
