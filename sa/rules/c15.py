"""C15 — sliding attack lookups equal ray walking for every square and occupancy, in both build
configurations.

R1 ACCESSOR-SHAPE: get_rook_moves / get_bishop_moves return
   MOVES[offset + ((magic * (occ & mask)) >> shift)] & RAYS[kind][sq] with all per-square parameters
   from MAGIC_NUMBERS[kind][sq]; the occupancy reaches the result only through `& mask`.
   bmi2: pdep(BMI_MOVES[pext(occ, mask) + offset], RAYS[kind][sq]) from ROOK_/BISHOP_BMI_MASK[sq].
R2 TABLE-AUDIT (complete): for each kind, square and EVERY subset of the mask the formula pinned by
   R1, applied to the emitted constants, equals the oracle's ray walk; the mask covers the oracle's
   relevant squares; every index is inside the table.
R3 CONFIG-AGREEMENT: both configurations pass R1/R2 against the same oracle."""
import os
from .common import *
from .. import tables as T

LEVEL = 'proof'
EXHAUSTIVE = True
EXPLANATION = ('MIR shape rule on the four lookup functions (formula and dataflow of the occupancy argument) plus a complete '
               'audit of the compiled-in magic / BMI2 tables: the pinned formula is applied to every subset of every mask '
               '(107 648 per configuration) and compared with an independent ray-walking oracle. Configurations: default '
               'and -C target-feature=+bmi2 (type-checked and const-evaluated; no pext/pdep is executed by the check).')
NOT_DECIDED = 'nothing: square x mask-subset is enumerated completely; irrelevant squares are excluded by the dataflow clause of R1'

M = 'magic::'


def sqi(n=1):
    return ('cast', ('field', ('param', n), '0'), 'usize')


def magic_entry(kind, fld):
    return ('field', ('index', ('index', ('constdef', M + 'MAGIC_NUMBERS', ANY), INT(kind)), sqi()), fld)


def shape_default(kind):
    word = lambda x: ('field', x, '0')
    occ = ('bin', 'BitAnd', word(('param', 2)), word(magic_entry(kind, 'mask')))
    prod = call('core::num::<impl u64>::wrapping_mul', word(magic_entry(kind, 'magic_number')), occ)
    prod2 = call('core::num::<impl u64>::wrapping_mul', occ, word(magic_entry(kind, 'magic_number')))
    rays = word(('index', ('index', ('constdef', M + 'RAYS', ANY), INT(kind)), sqi()))
    out = []
    for p in (prod, prod2):
        idx = ('bin', 'Add', ('cast', magic_entry(kind, 'offset'), 'usize'),
               ('cast', ('bin', 'Shr', p, magic_entry(kind, 'rightshift')), 'usize'))
        out.append(BB(('bin', 'BitAnd', word(('index', ('constdef', M + 'MOVES', ANY), idx)), rays)))
    return out


def shape_bmi(kind, maskname):
    word = lambda x: ('field', x, '0')
    ent = lambda fld: ('field', ('index', ('constdef', M + maskname, ANY), sqi()), fld)
    pext = call('core::core_arch::x86::bmi2::_pext_u64', word(('param', 2)), word(ent('blockers_mask')))
    idx = ('bin', 'Add', ('cast', pext, 'usize'), ('cast', ent('offset'), 'usize'))
    rays = word(('index', ('index', ('constdef', M + 'RAYS', ANY), INT(kind)), sqi()))
    val = ('cast', ('index', ('constdef', M + 'BMI_MOVES', ANY), idx), 'u64')
    return [BB(call('core::core_arch::x86::bmi2::_pdep_u64', val, rays)),
            BB(call('core::core_arch::x86_64::bmi2::_pdep_u64', val, rays))]


def r1(ctx, config):
    R = 'C15.R1'
    t = T.Tables(ctx.facts(config))
    il = inliner(ctx, config)
    kinds = {'rook': t.scalar(M + 'ROOK'), 'bishop': t.scalar(M + 'BISHOP')}
    if None in kinds.values() or set(kinds.values()) != {0, 1}:
        ctx.inconclusive(R, 'ROOK/BISHOP indices not found (%s)' % config)
        return None
    ok = {}
    for name, kind in kinds.items():
        key = M + 'get_%s_moves' % name
        s = ctx.an(config).summary(key)
        if s is None:
            ctx.inconclusive(R, 'anchor not found: %s (%s)' % (key, config))
            continue
        r = norm(il.inline(s.ret))
        good = any(match(p, r) is not None for p in shape_default(kind))
        # dataflow: the occupancy argument occurs exactly once, under `& mask`
        occs = sum(1 for x in walk(r) if x == ('param', 2))
        if good and occs == 1:
            ctx.ok(R, '[%s] %s = MOVES[offset + ((magic * (occ & mask)) >> shift)] & RAYS[%s][sq]; occ used once, under & mask'
                   % (config, key, name.upper()), where(s.body))
            ok[name] = True
        else:
            ctx.violation(R, '%s:%s' % (config, key),
                          'lookup does not have the magic-multiplication shape for %s (occ occurrences=%d): %s'
                          % (name, occs, sh(r, 700)), where(s.body))
    if config == 'bmi2':
        for name, kind in kinds.items():
            key = M + 'get_%s_moves_bmi' % name
            s = ctx.an(config).summary(key)
            if s is None:
                ctx.violation(R, 'bmi2:' + key + ':missing', 'BMI2 lookup %s does not exist in the +bmi2 configuration' % key, '')
                continue
            r = norm(il.inline(s.ret))
            # the intrinsics' defining module differs between toolchains: normalise the path tail
            r2 = rename_calls(r)
            pats = [rename_calls(p) for p in shape_bmi(kind, '%s_BMI_MASK' % name.upper())]
            occs = sum(1 for x in walk(r) if x == ('param', 2))
            if any(match(p, r2) is not None for p in pats) and occs == 1:
                ctx.ok(R, '[bmi2] %s = pdep(BMI_MOVES[pext(occ, mask) + offset], RAYS[%s][sq])' % (key, name.upper()),
                       where(s.body))
                ok[name + '_bmi'] = True
            else:
                ctx.violation(R, 'bmi2:' + key, 'BMI2 lookup does not have the pext/pdep shape: ' + sh(r, 700), where(s.body))
            exported = any(e['path'] == key for e in ctx.facts(config).exports)
            if exported:
                ctx.ok(R, '[bmi2] %s is exported' % key, where(s.body))
            else:
                ctx.violation(R, 'bmi2:' + key + ':export', '%s is not exported from the crate root' % key, where(s.body))
    return kinds, ok


def rename_calls(e):
    if not isinstance(e, tuple) or not e:
        return e
    if e[0] == 'call' and isinstance(e[1], str) and (e[1].endswith('::_pext_u64') or e[1].endswith('::_pdep_u64')):
        return ('call', e[1].rsplit('::', 1)[1], tuple(rename_calls(a) for a in e[2]), e[3])
    return tuple(rename_calls(x) for x in e)


def r2(ctx, config, kinds, shapes_ok):
    R = 'C15.R2'
    t = T.Tables(ctx.facts(config))
    magics = t.structs(M + 'MAGIC_NUMBERS', M + 'Magic')
    moves = t.u64s(M + 'MOVES')
    rays = t.u64s(M + 'RAYS')
    if magics is None or moves is None or rays is None or len(magics) != 128 or len(rays) != 128:
        ctx.inconclusive(R, 'magic tables not found / unexpected size (%s)' % config)
        return
    dirs = {'rook': T.ROOK_DIRS, 'bishop': T.BISHOP_DIRS}
    total = 0
    for name, kind in kinds.items():
        if not shapes_ok.get(name):
            ctx.note('R2 skipped for %s (%s): accessor shape not pinned' % (name, config))
            continue
        bad = []
        n = 0
        for sq in range(64):
            m = magics[kind * 64 + sq]
            mask, magic, off, sh_ = m['mask'], m['magic_number'], m['offset'], m['rightshift']
            rel = T.relevant(sq, dirs[name])
            ray = rays[kind * 64 + sq]
            if rel & ~mask:
                bad.append('sq %d: mask %#x misses relevant squares %#x' % (sq, mask, rel & ~mask))
                continue
            if bin(mask).count('1') > 14:
                bad.append('sq %d: mask has %d bits (not enumerable)' % (sq, bin(mask).count('1')))
                continue
            for sub in T.subsets(mask):
                n += 1
                idx = off + (((magic * sub) & T.M64) >> sh_ if sh_ < 64 else 0)
                if idx >= len(moves):
                    bad.append('sq %d occ %#x: index %d outside MOVES[%d]' % (sq, sub, idx, len(moves)))
                    break
                got = moves[idx] & ray
                want = T.ray_walk(sq, sub, dirs[name])
                if got != want:
                    bad.append('sq %d occ %#x: lookup %#x, ray walk %#x' % (sq, sub, got, want))
                    break
        total += n
        ctx.bulk(R, n, n if not bad else max(0, n - len(bad)))
        if bad:
            ctx.violation(R, '%s:%s' % (config, name), '%d square(s) fail; first: %s' % (len(bad), bad[0]), t.where(M + 'MAGIC_NUMBERS'))
        else:
            ctx.instance(R, '[%s] %s: %d mask subsets over 64 squares equal the ray walk; max index < %d' % (
                config, name, n, len(moves)), t.where(M + 'MOVES'))
    if config == 'bmi2':
        bm = t.u16s(M + 'BMI_MOVES')
        for name, kind in kinds.items():
            if not shapes_ok.get(name + '_bmi'):
                continue
            ent = t.structs(M + '%s_BMI_MASK' % name.upper(), M + 'BmiMagic')
            if ent is None or bm is None or len(ent) != 64:
                ctx.inconclusive(R, 'BMI tables not found (%s)' % name)
                continue
            bad = []
            n = 0
            for sq in range(64):
                mask, off = ent[sq]['blockers_mask'], ent[sq]['offset']
                rel = T.relevant(sq, dirs[name])
                ray = rays[kind * 64 + sq]
                if rel & ~mask:
                    bad.append('sq %d: mask misses relevant squares %#x' % (sq, rel & ~mask))
                    continue
                k = bin(mask).count('1')
                if k > 14:
                    bad.append('sq %d: mask too large' % sq)
                    continue
                for i in range(1 << k):
                    n += 1
                    sub = T.pdep(i, mask)
                    if off + i >= len(bm):
                        bad.append('sq %d: index %d outside BMI_MOVES[%d]' % (sq, off + i, len(bm)))
                        break
                    got = T.pdep(bm[off + i], ray)
                    want = T.ray_walk(sq, sub, dirs[name])
                    if got != want:
                        bad.append('sq %d occ %#x: lookup %#x, ray walk %#x' % (sq, sub, got, want))
                        break
            ctx.bulk(R, n, n if not bad else max(0, n - len(bad)))
            if bad:
                ctx.violation(R, 'bmi2:%s_bmi' % name, '%d square(s) fail; first: %s' % (len(bad), bad[0]),
                              t.where(M + 'BMI_MOVES'))
            else:
                ctx.instance(R, '[bmi2] %s_bmi: %d mask subsets over 64 squares equal the ray walk' % (name, n),
                             t.where(M + 'BMI_MOVES'))


def cpu_has_bmi2():
    try:
        return ' bmi2' in open('/proc/cpuinfo').read()
    except OSError:
        return False


def run(ctx):
    res = {}
    for config in ('default', 'bmi2'):
        if config == 'bmi2' and not cpu_has_bmi2():
            ctx.note('bmi2 configuration skipped: the build script of that configuration executes pext and this CPU '
                     'lacks BMI2, so the repository itself cannot be built in that configuration here')
            continue
        out = r1(ctx, config)
        if out is None:
            continue
        kinds, ok = out
        r2(ctx, config, kinds, ok)
        res[config] = ok
    if len(res) == 2 and all(res['default'].values()) and all(res['bmi2'].values()) and not ctx.violations:
        ctx.ok('C15.R3', 'default and bmi2 configurations both equal the same oracle, hence each other', '')
