"""C16 — board geometry tables and square arithmetic are exact.

R1 TABLE-AUDIT (complete): every entry of every geometry constant against an independent oracle.
R2 ACCESSOR-SHAPE: each exported accessor indexes the right table with its arguments in the right
   roles; pawn attack/quiet/move combinators have the required shape.
R3 STEP-HELPERS: finite maps of Rank/File up/down/left/right/from_index/to_index; Square
   get_rank/get_file/make_square bit shapes; up/down/left/right/forward/backward and the wrapping
   variants as maps on the (rank, file) components."""
from .common import *
from .. import tables as T
from ..expr import mk_constref

LEVEL = 'proof'
EXHAUSTIVE = True
EXPLANATION = ('Complete audit of the compiled-in geometry constants (evaluated by rustc, read as bytes) against an '
               'independent oracle written from the definitions, plus MIR shape rules on the 1-5 line accessors that index '
               'them and finite-map extraction (constant folding over the 8-valued Rank/File/Color enums) for the step helpers.')
NOT_DECIDED = 'nothing of substance'

M = 'magic::'


_AUDITED = [0]


def audit(ctx, R, name, got, want_fn, idx_desc):
    """compare a flat list with oracle want_fn(i); one obligation per table"""
    t = T.Tables(ctx.facts())
    _AUDITED[0] += 1
    if got is None:
        ctx.inconclusive(R, 'constant %s not found or not evaluable' % name)
        return
    bad = []
    n = len(got)
    for i in range(n):
        w = want_fn(i)
        if w is None:
            bad.append((i, 'index out of the oracle domain', got[i]))
        elif got[i] != w:
            bad.append((i, w, got[i]))
    ctx.bulk(R, n, n - len(bad))
    if bad:
        i, w, g = bad[0]
        ctx.violation(R, name, '%d of %d entries wrong; first: %s expected %s got %s' % (
            len(bad), n, idx_desc(i), hex(w) if isinstance(w, int) else w, hex(g)), t.where(name))
    else:
        ctx.instance(R, '%s: %d entries equal the oracle' % (name, n), t.where(name))


def r1(ctx):
    R = 'C16.R1'
    _AUDITED[0] = 0
    f = ctx.facts()
    t = T.Tables(f)
    rook = t.scalar(M + 'ROOK')
    bishop = t.scalar(M + 'BISHOP')
    if rook is None or bishop is None or {rook, bishop} != {0, 1}:
        ctx.inconclusive(R, 'ROOK/BISHOP ray indices not found')
        return
    sqn = lambda i: 'sq %d' % i
    pair = lambda i: '[%d][%d]' % (i // 64, i % 64)
    cs = lambda i: '[color %d][sq %d]' % (i // 64, i % 64)
    audit(ctx, R, M + 'BETWEEN', t.u64s(M + 'BETWEEN'), lambda i: T.between(i // 64, i % 64) if i < 4096 else None, pair)
    audit(ctx, R, M + 'LINE', t.u64s(M + 'LINE'), lambda i: T.line(i // 64, i % 64) if i < 4096 else None, pair)
    dirs = {rook: T.ROOK_DIRS, bishop: T.BISHOP_DIRS}
    audit(ctx, R, M + 'RAYS', t.u64s(M + 'RAYS'), lambda i: T.rays(i % 64, dirs[i // 64]) if i < 128 else None,
          lambda i: '[%s][sq %d]' % ('ROOK' if i // 64 == rook else 'BISHOP', i % 64))
    audit(ctx, R, M + 'KING_MOVES', t.u64s(M + 'KING_MOVES'), lambda i: T.steps(i, T.KING_D) if i < 64 else None, sqn)
    audit(ctx, R, M + 'KNIGHT_MOVES', t.u64s(M + 'KNIGHT_MOVES'), lambda i: T.steps(i, T.KNIGHT_D) if i < 64 else None, sqn)
    audit(ctx, R, M + 'PAWN_ATTACKS', t.u64s(M + 'PAWN_ATTACKS'),
          lambda i: T.pawn_attacks(i // 64, i % 64) if i < 128 else None, cs)
    audit(ctx, R, M + 'PAWN_MOVES', t.u64s(M + 'PAWN_MOVES'),
          lambda i: T.pawn_pushes(i // 64, i % 64) if i < 128 else None, cs)
    audit(ctx, R, M + 'RANKS', t.u64s(M + 'RANKS'), lambda i: T.rank_bb(i) if i < 8 else None, lambda i: 'rank %d' % i)
    audit(ctx, R, M + 'FILES', t.u64s(M + 'FILES'), lambda i: T.file_bb(i) if i < 8 else None, lambda i: 'file %d' % i)
    audit(ctx, R, M + 'ADJACENT_FILES', t.u64s(M + 'ADJACENT_FILES'),
          lambda i: T.adjacent_files(i) if i < 8 else None, lambda i: 'file %d' % i)
    backrank = lambda c: 0 if c == 0 else 7
    audit(ctx, R, M + 'KINGSIDE_CASTLE_SQUARES', t.u64s(M + 'KINGSIDE_CASTLE_SQUARES'),
          lambda c: (T.bit(T.sq_of(backrank(c), 5)) | T.bit(T.sq_of(backrank(c), 6))) if c < 2 else None,
          lambda i: 'color %d' % i)
    audit(ctx, R, M + 'QUEENSIDE_CASTLE_SQUARES', t.u64s(M + 'QUEENSIDE_CASTLE_SQUARES'),
          lambda c: (T.bit(T.sq_of(backrank(c), 1)) | T.bit(T.sq_of(backrank(c), 2)) | T.bit(T.sq_of(backrank(c), 3)))
          if c < 2 else None, lambda i: 'color %d' % i)
    scal = {
        M + 'EDGES': T.EDGES,
        M + 'CASTLE_MOVES': sum(T.bit(T.sq_of(r, fl)) for r in (0, 7) for fl in (2, 4, 6)),
        M + 'PAWN_SOURCE_DOUBLE_MOVES': T.rank_bb(1) | T.rank_bb(6),
        M + 'PAWN_DEST_DOUBLE_MOVES': T.rank_bb(3) | T.rank_bb(4),
    }
    for name, want in scal.items():
        v = t.scalar(name)
        audit(ctx, R, name, None if v is None else [v], lambda i, want=want: want, lambda i: 'value')
    ctx.floor(R, 'geometry constants audited', _AUDITED[0], 16)


STEPS = ('square::Square::up', 'square::Square::down', 'square::Square::left', 'square::Square::right',
         'square::Square::uup', 'square::Square::udown', 'square::Square::uleft', 'square::Square::uright',
         'square::Square::forward', 'square::Square::backward', 'square::Square::uforward', 'square::Square::ubackward')


def no_steps(k):
    return k not in STEPS


def sqidx(n):
    """the usize index derived from Square parameter n"""
    return [('cast', ('field', ('param', n), '0'), 'usize'), ('cast', ('field', ('mem', ('p', n)), '0'), 'usize')]


def enumidx(n):
    return [('cast', ('discr', ('param', n)), 'usize'), ('cast', ('discr', ('mem', ('p', n))), 'usize')]


def table(name):
    return ('constdef', M + name, ANY)


def r2(ctx):
    R = 'C16.R2'
    f = ctx.facts()
    t = T.Tables(f)
    il = inliner(ctx)
    rook = t.scalar(M + 'ROOK')
    bishop = t.scalar(M + 'BISHOP')
    n = 0

    def shape(key, pats, desc):
        nonlocal n
        s = summary(ctx, key, R)
        if s is None:
            return None
        n += 1
        r = norm(il.inline(s.ret, only=no_steps))
        for p in pats:
            if match(p, r) is not None:
                ctx.ok(R, '%s = %s' % (key, desc), where(s.body))
                return r
        # not literally one of the spellings: compare as decision trees (negated tests, swapped branches, early returns)
        from ..treeq import TreeEq, strip_calls, show_env

        def canon(e):
            def rec(x):
                if isinstance(x, tuple) and x:
                    if x[0] == 'constdef':
                        return ('constdef', x[1])
                    return tuple(rec(y) if isinstance(y, tuple) else y for y in x)
                return x
            return rec(strip_calls(norm(e)))
        te = TreeEq(f, canon=canon)
        verdicts = [te.equal(p, r) for p in pats if ANY not in [y for y in walk(p) if not isinstance(y, tuple)] or True]
        if any(v[0] is True for v in verdicts):
            ctx.ok(R, '%s = %s (equivalent decision tree)' % (key, desc), where(s.body))
            return r
        bad = [v for v in verdicts if v[0] is False]
        if bad and len(bad) == len(verdicts):
            env, la, lb = bad[0][1]
            ctx.violation(R, key, 'expected %s, got %s (differs e.g. when %s: %s)' % (desc, sh(r, 400), show_env(env, sh) or 'always', sh(lb, 120)), where(s.body))
        else:
            ctx.inconclusive(R, '%s: shape not recognised: %s' % (key, sh(r, 300)))
        return r

    def one(name, idx):
        return [('index', table(name), i) for i in idx]

    def two(name, i1, i2):
        return [('index', ('index', table(name), a), b) for a in i1 for b in i2]

    shape(M + 'get_king_moves', one('KING_MOVES', sqidx(1)), 'KING_MOVES[sq]')
    shape(M + 'get_knight_moves', one('KNIGHT_MOVES', sqidx(1)), 'KNIGHT_MOVES[sq]')
    shape(M + 'get_rank', one('RANKS', enumidx(1)), 'RANKS[rank]')
    shape(M + 'get_file', one('FILES', enumidx(1)), 'FILES[file]')
    shape(M + 'get_adjacent_files', one('ADJACENT_FILES', enumidx(1)), 'ADJACENT_FILES[file]')
    if rook is not None and bishop is not None:
        shape(M + 'get_rook_rays', two('RAYS', [INT(rook)], sqidx(1)), 'RAYS[ROOK][sq]')
        shape(M + 'get_bishop_rays', two('RAYS', [INT(bishop)], sqidx(1)), 'RAYS[BISHOP][sq]')
    # between / line: declaration order, or swapped when the table is symmetric
    for fn, tab in (('between', 'BETWEEN'), ('line', 'LINE')):
        data = t.u64s(M + tab)
        sym = data is not None and len(data) == 4096 and all(data[a * 64 + b] == data[b * 64 + a]
                                                              for a in range(64) for b in range(a))
        pats = two(tab, sqidx(1), sqidx(2))
        if sym:
            pats = pats + two(tab, sqidx(2), sqidx(1))
        shape(M + fn, pats, '%s[sq1][sq2]%s' % (tab, ' (table is symmetric: either order)' if sym else ''))
    shape(M + 'get_castle_moves', [table('CASTLE_MOVES'), ('int', ANY, 'bitboard::BitBoard')], 'CASTLE_MOVES')
    shape(M + 'get_pawn_source_double_moves', [table('PAWN_SOURCE_DOUBLE_MOVES'), ('int', ANY, 'bitboard::BitBoard')],
          'PAWN_SOURCE_DOUBLE_MOVES')
    shape(M + 'get_pawn_dest_double_moves', [table('PAWN_DEST_DOUBLE_MOVES'), ('int', ANY, 'bitboard::BitBoard')],
          'PAWN_DEST_DOUBLE_MOVES')
    # scalar constants are folded to their value by the compiler's const evaluation: compare values
    for fn, cname in (('get_castle_moves', 'CASTLE_MOVES'), ('get_pawn_source_double_moves', 'PAWN_SOURCE_DOUBLE_MOVES'),
                      ('get_pawn_dest_double_moves', 'PAWN_DEST_DOUBLE_MOVES')):
        s = ctx.an().summary(M + fn)
        if s is not None:
            r = norm(il.inline(s.ret))
            if r[0] == 'int' and r[1] != t.scalar(M + cname):
                ctx.violation(R, M + fn + ':value', '%s returns %s, not %s' % (fn, hex(r[1]), cname), where(s.body))
    # pawn attacks: table[color][sq] & blockers
    word = lambda x: ('field', x, '0')
    att = [BB(('bin', 'BitAnd', word(('index', ('index', table('PAWN_ATTACKS'), c), q)), word(('param', 3))))
           for c in enumidx(2) for q in sqidx(1)]
    ra = shape(M + 'get_pawn_attacks', att, 'PAWN_ATTACKS[color][sq] & blockers')
    # pawn quiets: EMPTY if the square in front is blocked, else table & !blockers
    front = BB(('bin', 'BitAnd', ('bin', 'Shl', INT(1, 'u64'),
                                   word(call('square::Square::uforward', ('param', 1), ('param', 2)))), word(('param', 3))))
    empty = ('int', 0, 'bitboard::BitBoard')
    open_ = [BB(('bin', 'BitAnd', word(('index', ('index', table('PAWN_MOVES'), c), q)), ('un', 'Not', word(('param', 3)))))
             for c in enumidx(2) for q in sqidx(1)]
    quiets = []
    for o in open_:
        quiets.append(('ite', call('core::cmp::PartialEq::ne', front, empty), ((0, o), ('otherwise', empty))))
        quiets.append(('ite', call('<bitboard::BitBoard as core::cmp::PartialEq>::eq', front, empty),
                       ((0, empty), ('otherwise', o))))
    rq = shape(M + 'get_pawn_quiets', quiets,
               'if from_square(sq.uforward(color)) & blockers != EMPTY {EMPTY} else {PAWN_MOVES[color][sq] & !blockers}')
    # pawn moves = attacks combined with quiets (disjoint sets: xor and or coincide)
    s = summary(ctx, M + 'get_pawn_moves', R)
    if s is not None:
        n += 1
        r = norm(s.ret)
        a = call(M + 'get_pawn_attacks', ('param', 1), ('param', 2), ('param', 3))
        q = call(M + 'get_pawn_quiets', ('param', 1), ('param', 2), ('param', 3))
        ops = ['<bitboard::BitBoard as core::ops::bit::BitXor>::bitxor', '<bitboard::BitBoard as core::ops::bit::BitOr>::bitor']
        if any(match(call(o, x, y), r) is not None for o in ops for x, y in ((a, q), (q, a))):
            ctx.ok(R, 'get_pawn_moves = get_pawn_attacks ^ get_pawn_quiets (same arguments)', where(s.body))
        else:
            ctx.violation(R, M + 'get_pawn_moves', 'expected attacks ^ quiets on (sq, color, blockers), got ' + sh(r, 500),
                          where(s.body))
    ctx.floor(R, 'geometry accessors', n, 15)


RANK = 'rank::Rank'
FILE = 'file::File'
COLOR = 'color::Color'


def variants(ctx, adt):
    a = ctx.facts().adts.get(adt)
    return [v['name'] for v in sorted(a['variants'], key=lambda v: int(v['discr']))] if a else []


def replace(e, old, new):
    if e == old:
        return new
    if isinstance(e, tuple):
        return tuple(replace(x, old, new) for x in e)
    return e


def r3(ctx):
    R = 'C16.R3'
    il = inliner(ctx)
    f = ctx.facts()
    # --- Rank / File maps
    for adt, mod, plus, minus in ((RANK, 'rank::Rank', 'up', 'down'), (FILE, 'file::File', 'right', 'left')):
        names = variants(ctx, adt)
        if len(names) != 8:
            ctx.inconclusive(R, '%s does not have 8 variants' % adt)
            continue
        discr_ok = all(f.enum_discr(adt, n) == i for i, n in enumerate(names))
        if discr_ok:
            ctx.ok(R, '%s discriminants are 0..7 in declaration order' % adt, '')
        else:
            ctx.violation(R, adt + ':discr', 'discriminants are not 0..7', '')
        consts = [mk_constref(('enum', adt, n)) for n in names]
        for meth, delta in ((plus, 1), (minus, -1)):
            key = '%s::%s' % (mod, meth)
            fm = il.finmap(key, [consts])
            if fm is None:
                ctx.inconclusive(R, 'anchor not found: ' + key)
                continue
            bad = []
            for i, c in enumerate(consts):
                want = ('enum', adt, names[(i + delta) % 8])
                got = norm(fm[(c,)])
                if got != want:
                    bad.append('%s -> %s (expected %s)' % (names[i], sh(got, 80), want[2]))
            b = f.body(key)
            if bad:
                ctx.violation(R, key, 'step map wrong: ' + '; '.join(bad[:3]), where(b))
            else:
                ctx.ok(R, '%s maps index i to (i%+d) mod 8 for all 8 values' % (key, delta), where(b))
        key = '%s::to_index' % mod
        fm = il.finmap(key, [consts])
        if fm is not None:
            bad = [names[i] for i, c in enumerate(consts) if norm(fm[(c,)]) != INT(i)]
            if bad:
                ctx.violation(R, key, 'to_index wrong for %s' % bad, where(f.body(key)))
            else:
                ctx.ok(R, '%s = declaration index for all 8 values' % key, where(f.body(key)))
        key = '%s::from_index' % mod
        fm = il.finmap(key, [[INT(i) for i in range(16)]])
        if fm is not None:
            bad = [i for i in range(16) if norm(fm[(INT(i),)]) != ('enum', adt, names[i & 7])]
            if bad:
                ctx.violation(R, key, 'from_index wrong for %s' % bad, where(f.body(key)))
            else:
                ctx.ok(R, '%s(i) = variant i & 7 for i in 0..16' % key, where(f.body(key)))
    # --- Square component shapes
    word = [('field', ('param', 1), '0'), ('field', ('mem', ('p', 1)), '0')]
    s = summary(ctx, 'square::Square::get_rank', R)
    if s is not None:
        r = norm(s.ret)
        pats = [call('rank::Rank::from_index', ('cast', ('bin', 'Shr', w, ('int', 3, ANY)), 'usize')) for w in word]
        if any(match(p, r) is not None for p in pats):
            ctx.ok(R, 'Square::get_rank = Rank::from_index(sq >> 3)', where(s.body))
        else:
            ctx.violation(R, 'square::Square::get_rank', 'expected Rank::from_index(sq >> 3), got ' + sh(r), where(s.body))
    s = summary(ctx, 'square::Square::get_file', R)
    if s is not None:
        r = norm(s.ret)
        pats = [call('file::File::from_index', ('cast', ('bin', 'BitAnd', w, ('int', 7, ANY)), 'usize')) for w in word]
        if any(match(p, r) is not None for p in pats):
            ctx.ok(R, 'Square::get_file = File::from_index(sq & 7)', where(s.body))
        else:
            ctx.violation(R, 'square::Square::get_file', 'expected File::from_index(sq & 7), got ' + sh(r), where(s.body))
    for key, desc in (('square::Square::to_index', 'usize'), ('square::Square::to_int', None)):
        s = summary(ctx, key, R)
        if s is not None:
            r = norm(s.ret)
            pats = [('cast', w, 'usize') for w in word] if desc else word
            if any(match(p, r) is not None for p in pats):
                ctx.ok(R, '%s = the square number' % key, where(s.body))
            else:
                ctx.violation(R, key, 'expected the raw square number, got ' + sh(r), where(s.body))
    # --- step helpers as maps on (rank, file)
    ranks = variants(ctx, RANK)
    files = variants(ctx, FILE)
    GR = ('call', 'square::Square::get_rank', (('param', 1),), ())
    GF = ('call', 'square::Square::get_file', (('param', 1),), ())
    keep = ('square::Square::get_rank', 'square::Square::get_file', 'square::Square::make_square')
    some = lambda x: ('agg', 'core::option::Option', 'Some', (('0', x),))
    none = ('agg', 'core::option::Option', 'None', ())
    mk = lambda r, fl: ('call', 'square::Square::make_square', (r, fl), ())

    def eval_step(key, color=None):
        """returns dict: ('r', i) -> folded result with rank fixed / file symbolic, ('f', i) -> the converse"""
        s = ctx.an().summary(key)
        if s is None:
            return None
        e = s.ret
        if color is not None:
            e = il.subst(e, (('param', 1), ('enum', COLOR, color)))
        e = norm(il.inline(e, only=lambda k: k not in keep))
        out = {}
        for i, rn in enumerate(ranks):
            out[('r', i)] = norm(il.inline(replace(e, GR, ('enum', RANK, rn)), only=lambda k: k not in keep))
        for i, fn_ in enumerate(files):
            out[('f', i)] = norm(il.inline(replace(e, GF, ('enum', FILE, fn_)), only=lambda k: k not in keep))
        return out

    def expect(key, axis, delta, wrapping, color=None, label=None):
        label = label or key
        res = eval_step(key, color)
        b = f.body(key)
        if res is None:
            ctx.inconclusive(R, 'anchor not found: ' + key)
            return
        bad = []
        for i in range(8):
            j = i + delta
            if axis == 'r':
                got = res[('r', i)]
                tgt = mk(('enum', RANK, ranks[j % 8]), GR_F)
            else:
                got = res[('f', i)]
                tgt = mk(GR_R, ('enum', FILE, files[j % 8]))
            if wrapping:
                want = tgt
            else:
                want = some(tgt) if 0 <= j < 8 else none
            if got != want:
                bad.append('%s %d -> %s (expected %s)' % ('rank' if axis == 'r' else 'file', i, sh(got, 120), sh(want, 120)))
        if bad:
            ctx.violation(R, label, 'step helper wrong: ' + '; '.join(bad[:2]), where(b))
        else:
            ctx.ok(R, '%s: %s %+d, %s at the edge, other component unchanged (8 cases)' % (
                label, 'rank' if axis == 'r' else 'file', delta, 'wraps' if wrapping else 'None'), where(b))

    GR_F = GF  # file component passed through
    GR_R = GR  # rank component passed through
    expect('square::Square::up', 'r', +1, False)
    expect('square::Square::down', 'r', -1, False)
    expect('square::Square::right', 'f', +1, False)
    expect('square::Square::left', 'f', -1, False)
    expect('square::Square::uup', 'r', +1, True)
    expect('square::Square::udown', 'r', -1, True)
    expect('square::Square::uright', 'f', +1, True)
    expect('square::Square::uleft', 'f', -1, True)
    cols = variants(ctx, COLOR)
    if cols == ['White', 'Black']:
        for key, wrap in (('square::Square::forward', False), ('square::Square::uforward', True)):
            expect(key, 'r', +1, wrap, 'White', key + '(White)')
            expect(key, 'r', -1, wrap, 'Black', key + '(Black)')
        for key, wrap in (('square::Square::backward', False), ('square::Square::ubackward', True)):
            expect(key, 'r', -1, wrap, 'White', key + '(White)')
            expect(key, 'r', +1, wrap, 'Black', key + '(Black)')
    else:
        ctx.inconclusive(R, 'Color variants are not [White, Black]')


def run(ctx):
    r1(ctx)
    r2(ctx)
    r3(ctx)
