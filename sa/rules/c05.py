"""C05 — legal play stays within valid positions; rights and material only shrink.

R1 RIGHTS-MONOTONE (a proof, not a sample): from make_move, make_move_new and null_move the field
   castle_rights is reachable only through the `remove` path: add_castle_rights is unreachable; the
   only field-wise writer reached is the removing helper; that helper stores
   from_index(to_index(old) & !to_index(arg)) into the slot it read (finite maps over the 4x4 rights
   values give a bitwise subset) => the successor's rights are a subset of the source's, for every
   move and every history.
R3 RIGHTS-FOLLOW-PLACEMENT (= C02.R5) and R4 MATERIAL-TOGGLES (= C02.R7/R8): rights are dropped,
   unconditionally, for the opponent by the destination square and for the mover by the source
   square; every placement toggle is one of the prescribed remove/add pairs.
R5 PROMOTION-FLAG (= C01.R3): pawn moves onto the last rank are generated as promotions for pinned and unpinned pawns alike.
R2 SANITY-GATE: Board literals exist only in the private constructor; every public construction of a
   Board from non-Board data returns Ok only on the true edge of is_sane() evaluated on exactly the
   value returned, or delegates to such a constructor."""
from .common import *
from ..expr import mk_constref

LEVEL = 'other'
EXHAUSTIVE = True
EXPLANATION = ('Call-graph reachability and effect inventory for castle_rights (rights can only shrink, proved for all '
               'histories), finite-map extraction of CastleRights::remove over all 16 argument pairs, and the gate shape of '
               'every Board constructor from text/builder data.')
NOT_DECIDED = ('"every reachable position is valid" and "men and pawn counts never grow" depend on which toggles a move '
               'performs (values); not decided here')
BOARD = 'board::Board'
CR = 'castle_rights::CastleRights'
ENTRY = ['board::Board::make_move', 'board::Board::make_move_new', 'board::Board::null_move']
SELF = ('mem', ('p', 1))


def replace(e, old, new):
    if e == old:
        return new
    if isinstance(e, tuple):
        return tuple(replace(x, old, new) for x in e)
    return e


def r1(ctx):
    R = 'C05.R1'
    f = ctx.facts()
    eff = ctx.eff()
    il = inliner(ctx)
    writers = sorted(k for k in eff.direct if (BOARD, 'castle_rights') in eff.direct[k] and '::{' not in k)
    if not writers:
        ctx.inconclusive(R, 'no writer of Board.castle_rights found')
        return
    # classify the writers by what they store
    names = [v['name'] for v in sorted(f.adts[CR]['variants'], key=lambda v: int(v['discr']))]
    idx = {n: f.enum_discr(CR, n) for n in names}
    shrinking = set()
    for k in writers:
        s = ctx.an().summary(k)
        fin = s.final.get(('p', 1))
        if fin is None:
            continue
        v = norm(il.inline(fin))
        m = match(('upd', SELF, 'castle_rights', ('updidx', ('field', SELF, 'castle_rights'), V('i'), V('new'))), v)
        if m is None:
            ctx.note('writer %s: effect not in slot-update form: %s' % (k, sh(v, 200)))
            continue
        old = ('index', ('field', SELF, 'castle_rights'), m['i'])
        # which parameter is the rights argument?
        sig = f.fns[k]['inputs']
        rp = [i + 1 for i, t in enumerate(sig) if t == CR]
        if len(rp) != 1:
            continue
        ok = True
        for a in names:
            for b in names:
                e = replace(m['new'], old, ('enum', CR, a))
                e = replace(e, ('param', rp[0]), ('enum', CR, b))
                r = norm(il.inline(e))
                if r[0] != 'enum' or r[1] != CR or (idx[r[2]] & ~idx[a]) != 0:
                    ok = False
        if ok:
            shrinking.add(k)
            ctx.ok(R, '%s stores a bitwise subset of the slot it read (16 rights pairs)' % k, where(s.body))
        else:
            ctx.instance(R, '%s can add rights' % k, where(s.body))
    for e in ENTRY:
        if e not in f.bodies:
            ctx.inconclusive(R, 'anchor not found: ' + e)
            continue
        reach = eff.reach(e)
        reached = [w for w in writers if w in reach and w != e]
        grow = [w for w in reached if w not in shrinking]
        # the entry itself must not write the field directly (whole-board copies are allowed)
        direct = (BOARD, 'castle_rights') in eff.direct.get(e, set())
        if grow or direct:
            ctx.violation(R, e + ':rights', '%s can reach a rights writer that is not a pure removal: %s%s' % (
                e, grow, ' (and writes the field itself)' if direct else ''), where(f.body(e)))
        else:
            ctx.ok(R, '%s reaches castle_rights only through %s' % (e, reached or 'nothing'), where(f.body(e)))
    # CastleRights::remove itself
    key = 'castle_rights::CastleRights::remove'
    consts = [mk_constref(('enum', CR, n)) for n in names]
    fm = il.finmap(key, [consts, [('enum', CR, n) for n in names]])
    if fm is None:
        ctx.inconclusive(R, 'anchor not found: ' + key)
    else:
        bad = []
        for (a, b), r in fm.items():
            r = norm(r)
            an_, bn = a[1][2], b[2]
            want = idx[an_] & ~idx[bn] & 3
            if r[0] != 'enum' or idx.get(r[2]) != want:
                bad.append('%s.remove(%s) = %s' % (an_, bn, sh(r, 40)))
        if bad:
            ctx.violation(R, key, 'remove is not bitwise difference: ' + '; '.join(bad[:3]), where(f.body(key)))
        else:
            ctx.ok(R, 'CastleRights::remove(a, b) = a & !b for all 16 pairs', where(f.body(key)))
    for nm, bit in (('has_kingside', 1), ('has_queenside', 2)):
        key = 'castle_rights::CastleRights::' + nm
        fm = il.finmap(key, [consts])
        if fm is None:
            continue
        bad = [a[0][1][2] for a, r in fm.items() if norm(r) != ('int', int(bool(idx[a[0][1][2]] & bit)), 'bool')]
        if bad:
            ctx.violation(R, key, '%s wrong for %s' % (nm, bad), where(f.body(key)))
        else:
            ctx.ok(R, '%s = bit %d of the rights value (4 values)' % (nm, bit), where(f.body(key)))


def r2(ctx, rule='C05.R2'):
    R = rule
    f = ctx.facts()
    gate = '<board::Board as core::convert::TryFrom<&board_builder::BoardBuilder>>::try_from'
    s = summary(ctx, gate, R)
    if s is None:
        return
    w = where(s.body)
    r = norm(s.ret)
    m = match(('ite', call('board::Board::is_sane', V('x')), ((0, ('agg', 'core::result::Result', 'Err', ANY)),
                                                               ('otherwise', ('agg', 'core::result::Result', 'Ok', (('0', V('y')),))))), r)
    if m is None:
        ctx.violation(R, gate, 'construction from a builder is not `if board.is_sane() {Ok(board)} else {Err}`: ' + sh(r, 300), w)
    elif m['x'] != m['y']:
        ctx.violation(R, gate + ':same-value', 'the board returned is not the board that was checked (mutation between the check and the return)', w)
    else:
        ctx.ok(R, 'try_from(&BoardBuilder) returns Ok(board) only if board.is_sane(), for the value that was checked', w)
    # other constructors from non-Board data delegate
    n = 0
    for key, fn in sorted(f.fns.items()):
        if 'board::Board' not in fn.get('output', '') or key == gate or '::{' in key:
            continue
        if any('board::Board' in i for i in fn.get('inputs', [])):
            continue
        if not (fn.get('pub') or 'impl_trait' in fn):
            continue
        if not fn['output'].replace('core::result::Result<', '').replace('core::option::Option<', '').startswith('board::Board'):
            continue
        n += 1
        body = f.body(key)
        direct = {fl for a, fl in ctx.eff().direct.get(key, set()) if a == BOARD}
        lits = any(st['k'] == 'assign' and st['rv']['rv'] == 'agg' and st['rv'].get('adt') == BOARD
                   for bi in body.reachable() for st in body.blocks[bi]['stmts'])
        if direct or lits:
            ctx.violation(R, key + ':bypass', '%s builds or edits a Board itself (fields %s) instead of going through the sanity gate' % (
                key, sorted(direct)), where(body))
        else:
            ctx.ok(R, '%s obtains its Board only from other constructors (no literal, no field write)' % key, where(body))
    ctx.floor(R, 'public Board constructors from non-Board data (besides the gate)', n, 3)


def r34(ctx):
    """R3 RIGHTS-FOLLOW-PLACEMENT / R4 MATERIAL-TOGGLES: the clauses of the move-application rule set (C02.R5, R7, R8)
    that are necessary for reachable positions to stay valid: a right is dropped whenever its king/rook leaves or its rook is
    captured (otherwise is_sane rejects the successor and castling later conjures a rook), and every placement toggle is one of
    the prescribed remove/add pairs (otherwise the number of men can grow)."""
    from . import c02
    from ..bb import bb
    bb(('unit',), ctx.an())
    sub = Sub(ctx, {'C02.R5': 'C05.R3', 'C02.R7': 'C05.R4', 'C02.R8': 'C05.R4'})
    for s_, res_, key_ in c02.bodies(sub):
        c02.r48(sub, s_, result=res_, KEY=key_)


def r5(ctx):
    """R5 PROMOTION-FLAG (= C01.R3): every generated pawn move onto the last rank is a promotion (the flag of a pawn entry is
    `source on the seventh rank`, for pinned and unpinned pawns alike), so legal play never leaves a pawn on the first or last
    rank; with C02.R8 the pawn is replaced by the promotion piece."""
    from . import c01
    sub = Sub(ctx, {'C01.R3': 'C05.R5'})
    c01.r3(sub)


def r6(ctx):
    """R6 CHECK-INFO-FRESH (= C03.R2/R3): "the side that just moved is not in check" holds along a history only if the
    generator is told about every check: checkers / pinned are recomputed, completely, in every Board -- the start position
    built from text or a builder included (a lost knight check there lets the generator leave the king attacked)."""
    from . import c03
    sub = Sub(ctx, {'C03.R2': 'C05.R6', 'C03.R3': 'C05.R6'})
    rec = c03.r2(sub)
    c03.r3(sub, rec)


def run(ctx):
    r1(ctx)
    r2(ctx)
    r34(ctx)
    r5(ctx)
    r6(ctx)
    # R8 SANITY-EXACT (= C07.R2): "the library's own sanity check accepts it" for every reachable position needs is_sane to
    # reject nothing but the required conjuncts (a further, wrong rejection refuses a position legal play reaches)
    from . import c07
    from ..bb import bb as _bb
    _bb(('unit',), ctx.an())
    sub = Sub(ctx, {'C07.R2': 'C05.R8'})
    c07.r2(sub)
    # R7 GEOMETRY (= C16.R1/R2, C15.R1/R2): a wrong table entry makes the generator emit a move that leaves the position invalid
    tables_dep(ctx, 'C05.R7', ['movegen::movegen::MoveGen::new_legal', 'board::Board::make_move', 'board::Board::make_move_new'])
