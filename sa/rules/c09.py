"""C09 — the position hash separates positions that differ in one component.

R1 KEY-DISTINCT (constant-data audit, complete): the 768 piece keys are pairwise distinct and
   non-zero; per colour the 4 castling keys are pairwise distinct; per colour the 8 en-passant keys are
   pairwise distinct and non-zero; the side key is non-zero.
R2 FOLD-INJECTIVE (from C08.R3): each component enters get_hash through an injective index of its
   own table (piece/square/colour; rights per colour; file; side) -- checked by the C08 rule set,
   re-run here so that C09 stands on its own.
R3 STORED-HASH (= C08.R1/R2/R5): the stored hash is the xor of the piece keys of exactly the men on the board
   (single writer, lock-step with the bitboards, single-square call sites).
Supplementary (reported, not required): all 793 keys globally distinct, no key equal to the xor of
two others."""
from .common import *
from .. import tables as T
from . import c08

LEVEL = 'other'
EXHAUSTIVE = True
EXPLANATION = ('Complete audit of the 793 compiled-in Zobrist keys (distinctness / non-zero per component table) plus the '
               'get_hash folding shape of C08.R3: together "differ in a single component => different hash" for every '
               'position. Collision frequency over explored positions is a statistic of runs and is not decided.')
NOT_DECIDED = 'collision frequency among explored positions (a statistic over runs, not a property of the code shape)'

Z = 'zobrist::'


def r1(ctx):
    R = 'C09.R1'
    t = T.Tables(ctx.facts())
    pieces = t.u64s(Z + 'ZOBRIST_PIECES')
    castles = t.u64s(Z + 'ZOBRIST_CASTLES')
    ep = t.u64s(Z + 'ZOBRIST_EP')
    side = t.scalar(Z + 'SIDE_TO_MOVE')
    if pieces is None or castles is None or ep is None or side is None:
        ctx.inconclusive(R, 'Zobrist constants not found')
        return
    if (len(pieces), len(castles), len(ep)) != (768, 8, 16):
        ctx.inconclusive(R, 'unexpected Zobrist table sizes %s' % ((len(pieces), len(castles), len(ep)),))
        return

    def distinct(name, vals, desc, nonzero=True):
        n = len(vals)
        dup = n - len(set(vals))
        zero = sum(1 for v in vals if v == 0) if nonzero else 0
        pairs = n * (n - 1) // 2 + (n if nonzero else 0)
        ctx.bulk(R, pairs, pairs if not (dup or zero) else 0)
        if dup or zero:
            ctx.violation(R, name, '%s: %d duplicate key(s), %d zero key(s): positions differing only there collide' % (
                desc, dup, zero), t.where(name.split('[')[0]))
        else:
            ctx.instance(R, '%s: %d keys pairwise distinct%s' % (desc, n, ' and non-zero' if nonzero else ''),
                         t.where(name.split('[')[0]))

    distinct(Z + 'ZOBRIST_PIECES', pieces, 'piece keys (2 colours x 6 pieces x 64 squares)')
    for c in range(2):
        # the castling key is folded for every rights value including NoRights: distinctness suffices
        distinct(Z + 'ZOBRIST_CASTLES[%d]' % c, castles[c * 4:(c + 1) * 4], 'castling keys of colour %d' % c, nonzero=False)
        distinct(Z + 'ZOBRIST_EP[%d]' % c, ep[c * 8:(c + 1) * 8], 'en-passant keys of colour %d' % c)
    ctx.bulk(R, 1, 1 if side else 0)
    if side == 0:
        ctx.violation(R, Z + 'SIDE_TO_MOVE', 'side key is zero: side to move does not affect the hash', t.where(Z + 'SIDE_TO_MOVE'))
    else:
        ctx.instance(R, 'side key non-zero', t.where(Z + 'SIDE_TO_MOVE'))
    # supplementary
    allk = pieces + castles + ep + [side]
    glob = len(set(allk)) == len(allk)
    ks = set(allk)
    xor2 = 0
    for i, a in enumerate(allk):
        for b in allk[i + 1:]:
            if (a ^ b) in ks:
                xor2 += 1
    ctx.note('supplementary: %d keys globally distinct: %s; keys equal to the xor of two others: %d' % (len(allk), glob, xor2))
    ctx.instance(R, 'supplementary: 793 keys globally distinct=%s, two-key xor coincidences=%d' % (glob, xor2), '')


def r3(ctx):
    """R3 STORED-HASH (= C08.R1/R2/R5): the stored part of the hash is the xor of the piece keys of exactly the men on the
    board -- written only by the lock-step toggle, with the key of the same (piece, square, colour), every call site
    passing a single square.  Without it two positions differing in one piece on one square can share a hash."""
    sub = Sub(ctx, {'C08.R1': 'C09.R3', 'C08.R2': 'C09.R3', 'C08.R5': 'C09.R3'})
    tog = c08.r1(sub)
    if tog:
        c08.r2(sub, tog)
        c08.r5(sub, tog)


def run(ctx):
    r1(ctx)
    c08.r3(ctx, rule='C09.R2')
    r3(ctx)
