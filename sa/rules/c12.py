"""C12 — SAN parsing returns exactly the denoted move, and only ever legal moves.

R1 PANIC-AUDIT on from_san (shared panic audit).
R2 LEGAL-PROVENANCE: every Ok(v) returns an item of MoveGen::new_legal(board) or a value whose
   membership in it was just tested.
R3 AMBIGUITY: inside the candidate loop a second candidate that passes the same component filters
   returns Err; the accepting store requires that no candidate was found before.
R4 FILTER-TABLE: the accepting edge requires equality of the piece on the source with the parsed
   piece, of source rank/file with the parsed ones when present, of destination and promotion; the
   parsed components come from the letter tables N B R Q K / a-h / 1-8 / N B R Q.
R5 OPTIONAL-TOKENS: dropping an optional token ('+', '#', ' e.p.') never turns acceptance into
   rejection: for every accepting condition that requires the token there is one without it that
   needs nothing more.
R6 SUFFIX-UNIFORMITY: the castling recogniser compares a check-suffix-stripped text (or lists the
   suffixed literals), like the ordinary recogniser which skips '+'/'#'; O-O -> king to file G,
   O-O-O -> file C, from file E on the mover's back rank."""
from .common import *
from .textfmt import untry
from ..expr import VAR_DEFS, expand_var
from . import panics

LEVEL = 'other'
EXHAUSTIVE = True
EXPLANATION = ('Path rules over the MIR of ChessMove::from_san: the reaching condition (DNF over branch outcomes) of the accepting '
               'store and of every rejecting edge inside the candidate loop, classified into component filters; provenance of every '
               'Ok value; letter tables extracted from the string comparisons; Boolean independence of acceptance from the optional '
               'tokens; panic audit of all slicing/arithmetic.')
NOT_DECIDED = 'coverage of every admissible spelling (string values)'

KEY = 'chess_move::ChessMove::from_san'
NEW_LEGAL = 'movegen::movegen::MoveGen::new_legal'


def deep(e, depth=3):
    """expand named merge values a few levels (for searching string literals)"""
    if depth == 0 or not isinstance(e, tuple) or not e:
        return e
    if e[0] == 'var' and e in VAR_DEFS:
        return deep(VAR_DEFS[e], depth - 1)
    return tuple(deep(x, depth) if isinstance(x, tuple) else x for x in e)


def str_lits(e, depth=4):
    out = set()
    seen = set()

    def rec(x, d):
        if not isinstance(x, tuple) or not x:
            return
        if x[0] == 'str':
            out.add(x[1])
            return
        if x[0] == 'var':
            if x in seen or d == 0:
                return
            seen.add(x)
            if x in VAR_DEFS:
                rec(VAR_DEFS[x], d - 1)
            return
        for c in x:
            if isinstance(c, tuple):
                rec(c, d)
    rec(e, depth)
    return out


def letter_table(e):
    """for a value built by `match text.get(i..i+1) { "N" => .., .. }`: {literal: leaf}"""
    out = {}
    e = expand_var(e)

    def rec(x):
        x = expand_var(x)
        if not isinstance(x, tuple) or not x or x[0] != 'ite':
            return
        c = norm(x[1])
        cases = dict(x[2])
        if c[0] == 'call' and c[1] == 'core::str::traits::<impl core::cmp::PartialEq for str>::eq':
            lits = [a[1] for a in c[2] if a[0] == 'str']
            if lits and 'otherwise' in cases:
                leaf = expand_var(cases['otherwise'])
                out[lits[0]] = leaf
                if 0 in cases:
                    rec(cases[0])
                return
        for _, sub in x[2]:
            rec(sub)
    rec(e)
    return out


STR_EQ = 'core::str::traits::<impl core::cmp::PartialEq for str>::eq'


def letter_table_val(e, want=()):
    """{literal: enum leaf} by valuation: the comparisons `subject == "lit"` the value depends on are grouped by subject
    (the text slice read); for the slice that carries this component, the expression is evaluated with `subject == L`
    true for the literal L and false for the others, whatever the nesting of matches / Options that carries the result.
    A leaf that is not one enum value gives None (form not recognised)."""
    groups = {}
    seen = set()

    def scan(x, d):
        if not isinstance(x, tuple) or not x:
            return
        if x[0] == 'var':
            if x in VAR_DEFS and x not in seen and d > 0:
                seen.add(x)
                scan(VAR_DEFS[x], d - 1)
            return
        if x[0] == 'call':
            if x[1] == STR_EQ:
                ls = [a_[1] for a_ in x[2] if a_[0] == 'str']
                sub = [a_ for a_ in x[2] if a_[0] != 'str']
                if ls and len(sub) == 1:
                    groups.setdefault(sub[0], set()).add(ls[0])
            return
        for c in x:
            if isinstance(c, tuple):
                scan(c, d)
    scan(e, 10)
    if not groups:
        return {}
    subject = max(sorted(groups, key=repr), key=lambda g: len(groups[g] & set(want)))
    out = {}
    for L in sorted(groups[subject]):
        def decide(c, vals):
            if c[0] == 'call' and c[1] == STR_EQ and subject in c[2]:
                ls = [a_[1] for a_ in c[2] if a_[0] == 'str']
                if ls:
                    return as_bool(ls[0] == L, vals)
            return None
        leaves = {leaf_enum(l) for l in tree_leaves(concretise(e, decide)) if l != ('never',)}
        out[L] = list(leaves)[0] if len(leaves) == 1 else None
    return out


def leaf_enum(x):
    x = norm(x)
    if x[0] == 'enum':
        return x[2]
    if x[0] == 'agg' and x[2] == 'Some' and x[3] and x[3][0][1][0] == 'enum':
        return x[3][0][1][2]
    for y in walk(x):
        if y[0] == 'enum':
            return y[2]
    return None


def deps(ctx):
    """R7 CANDIDATES (= C01.R2-R4, C16/C15 geometry): the parser returns members of MoveGen::new_legal(board): "only ever legal
    moves" and "every legal move is parsed back" rest on that list being the legal moves."""
    from . import c01
    from ..bb import bb
    bb(('unit',), ctx.an())
    sub = Sub(ctx, {'C01.R2': 'C12.R7', 'C01.R3': 'C12.R7', 'C01.R4': 'C12.R7'})
    c01.r2(sub)
    c01.r3(sub)
    c01.r4(sub)
    tables_dep(ctx, 'C12.R7', ['movegen::movegen::MoveGen::new_legal'])


def run(ctx):
    deps(ctx)
    panics.audit(ctx, 'C12.R1', [KEY])
    s = summary(ctx, KEY, 'C12.R2')
    if s is None:
        return
    body = s.body
    w = where(body)
    cfg = s.cfg
    loops = for_loops(s)
    if len(loops) != 1:
        ctx.inconclusive('C12.R2', 'candidate loop not recognised (%d loops)' % len(loops))
        return
    L = loops[0]
    M = norm(L['elem'])
    brk = sorted({a for a, _ in break_exits(s, L)})
    if brk:
        ctx.violation('C12.R3', KEY + ':early-exit', 'the candidate loop is left by a `break` (block(s) %s) before every legal move was compared: a later '
                      'candidate that passes the same filters is never seen, so ambiguous text is accepted' % brk, where(body, L['next']['line']))
    else:
        ctx.ok('C12.R3', 'the candidate loop examines every legal move (left only by exhaustion or by returning an error)', where(body, L['next']['line']))
    # the iterator is MoveGen::new_legal(board)
    it = L['source']
    itv = None
    if it is not None and it[0] == 'ref' and L['pre'] is not None:
        itv = s.exit[L['pre']].get(it[1])
    if itv is not None:
        itv = norm(itv)
        while itv[0] == 'after' and itv[2].endswith('::into_iter'):
            itv = itv[3]      # `for m in &mut gen`: into_iter of a &mut iterator is the iterator itself
    src_ok = itv is not None and match(call(NEW_LEGAL, ('param', 1)), itv) is not None
    if not src_ok and it is not None and match(call(NEW_LEGAL, ('param', 1)), norm(it)) is not None:
        src_ok = True
    # the accepting store: found = Some(M) inside the loop
    acc = [st for st in s.stores if st.get('local') and st['blk'] in L['blocks'] and
           norm(st['value']) == ('agg', 'core::option::Option', 'Some', (('0', M),))]
    # the result variable: the loop-carried Option that the final `ok_or` converts
    res_roots = set()
    ret_calls = [c for c in s.calls if c.get('dest') == ('ref', ('l', 0), ())]
    for c in ret_calls:
        m = match(call('core::option::Option::<T>::ok_or', V('f'), ANY), norm(c['result']))
        if m is not None and m['f'][0] == 'loop':
            res_roots.add(m['f'][2])
    if not res_roots and s.ret is not None:
        # `match found { Some(m) => Ok(m), None => Err(e) }` and the like: the loop-carried variable the result is read from
        res_roots = {x[2] for x in walk(norm(s.ret)) if isinstance(x, tuple) and x and x[0] == 'loop' and len(x) > 2}
    acc = [st for st in acc if st['target'][1] in res_roots and not st['target'][2]] or acc
    if len(acc) != 1:
        ctx.inconclusive('C12.R2', 'accepting store `found = Some(candidate)` not recognised (%d)' % len(acc))
        return
    A = acc[0]
    found_root = A['target'][1]
    FOUND = ('loop', L['header'], found_root)
    # final result
    rets = [st for st in s.stores if st.get('local') and st['target'] == ('ref', ('l', 0), ())]
    rets = rets + [dict(blk=c['blk'], line=c['line'], value=c['result']) for c in ret_calls]
    fin_ok = False
    castle_ok = None
    err = ('agg', 'core::result::Result', 'Err', ANY)
    for st in rets:
        v = norm(st['value'])
        if match(err, v) is not None:
            continue
        if v[0] == 'call' and v[1].endswith('::from_residual'):
            continue      # `?` propagating an Err
        m = match(call('core::option::Option::<T>::ok_or', V('f'), ANY), v)
        if m is not None and m['f'][0] == 'loop' and m['f'][2] == found_root:
            fin_ok = True
            continue
        m = match(('agg', 'core::result::Result', 'Ok', (('0', V('m')),)), v)
        if m is not None and match(('field', ('variant', ('loop', ANY, found_root), 'Some'), '0'), m['m']) is not None:
            fin_ok = True        # `match found { Some(m) => Ok(m), .. }`: the payload of the accepted candidate
            continue
        if m is not None:
            # must be guarded by membership in new_legal(board)
            gs = [(norm(g['cond']), truth(g)) for g in guards(s, st['blk']) if g['cond'] is not None]
            okm = False
            anyc = {norm(c['result']): c for c in s.calls if c['callee'].endswith('Iterator::any')}
            for c, tv in gs:
                if c in anyc:
                    c = ('call', c[1], tuple(norm(a) for a in anyc[c]['argvals']), c[3])
                mm = match(call('core::iter::traits::iterator::Iterator::any', call(NEW_LEGAL, ('param', 1)), ('closure', V('k'), V('caps'))), c)
                if mm is not None and tv is True:
                    cs = ctx.an().summary(mm['k'])
                    if cs is not None:
                        cr = norm(cs.ret)
                        if cr[0] == 'call' and cr[1].endswith('PartialEq>::eq') and 'ChessMove' in cr[1]:
                            if len(mm['caps']) == 1 and norm(mm['caps'][0]) == m['m']:
                                okm = True
            # `board.legal(m)` is that membership test by definition (C01.R1 holds it to it)
            for c, tv in gs:
                if tv is True and match(call('board::Board::legal', ('param', 1), m['m']), c) is not None:
                    okm = True
                if tv is False and c[0] == 'un' and c[1] == 'Not' and match(call('board::Board::legal', ('param', 1), m['m']), c[2]) is not None:
                    okm = True
            castle_ok = okm if castle_ok is None else (castle_ok and okm)
            if not okm:
                ctx.violation('C12.R2', KEY + ':ok-unchecked', 'an Ok value is returned without a membership test in MoveGen::new_legal(board): ' + sh(v, 200),
                              where(body, st['line']))
            continue
        ctx.violation('C12.R2', KEY + ':ok-other', 'unrecognised return value ' + sh(v, 200), where(body, st['line']))
    if src_ok and fin_ok:
        ctx.ok('C12.R2', 'ordinary moves: the returned value is the candidate stored from the loop over MoveGen::new_legal(board)', w)
    else:
        ctx.violation('C12.R2', KEY + ':provenance', 'the result is not taken from the loop over MoveGen::new_legal(board) (iterator ok: %s, ok_or(found): %s)' % (
            src_ok, fin_ok), w)
    if castle_ok:
        ctx.ok('C12.R2', 'castling: Ok(m) only if MoveGen::new_legal(board).any(|l| l == m)', w)
    # ------------------------------------------------------------------ classify literals
    SRC = call('chess_move::ChessMove::get_source', M)

    def classify(g):
        c = norm(g['cond']) if g['cond'] is not None else None
        if c is None:
            return ('?',)
        tv = g['truth']
        nr = norm(L['next']['result'])
        if c[0] == 'discr' and c[1] == nr:
            return ('loop',)
        if c[0] == 'call' and len(c[2]) == 2 and 'PartialEq' in c[1] and (c[1].endswith('::ne') or c[1].endswith('::eq')):
            is_ne = c[1].endswith('::ne')
            equal = (not tv) if is_ne else tv
            getters = (('piece', call('board::Board::piece_on', ('param', 1), SRC)), ('rank', call('square::Square::get_rank', SRC)),
                       ('file', call('square::Square::get_file', SRC)), ('dest', call('chess_move::ChessMove::get_dest', M)),
                       ('promo', call('chess_move::ChessMove::get_promotion', M)))
            for a_, b_ in ((c[2][0], c[2][1]), (c[2][1], c[2][0])):
                for kind_, pat in getters:
                    if match(pat, a_) is not None:
                        return (kind_, equal, b_)
                # `x.is_some() && x.unwrap() == piece` for the piece on the source
                if match(call('core::option::Option::<T>::unwrap', call('board::Board::piece_on', ('param', 1), SRC)), a_) is not None:
                    return ('piece', equal, ('agg', 'core::option::Option', 'Some', (('0', b_),)))
        m = match(call('core::option::Option::<T>::is_some', V('x')), c)
        if m is not None and m['x'] == FOUND:
            return ('found', tv)
        if c[0] == 'discr' and c[1] == FOUND:
            return ('found', tuple(g['vals']) == (1,))
        if c[0] == 'discr' and c[1][0] in ('var', 'ite', 'agg'):
            return ('opt', c[1], tuple(g['vals']))
        lits = str_lits(c)
        # a test OF the token is a comparison whose own operand is the literal (or a named boolean built from such
        # comparisons); an expression that merely depends on how far the cursor got (`text.get(cur..)`) is not
        direct = set()
        if c[0] == 'call' and 'PartialEq' in c[1]:
            direct = {a[1] for a in c[2] if isinstance(a, tuple) and a and a[0] == 'str'} | \
                     {a[1][1][1] for a in c[2] if isinstance(a, tuple) and a and a[0] == 'mem' and a[1][0] == 'h' and a[1][1][0] == 'str'}
        named = c[0] in ('var', 'ite')
        if ' e.p.' in (direct if not named else lits):
            return ('token-ep', tv, c)
        if (direct if not named else lits) & {'+', '#'}:
            return ('token-check', tv, c)
        if 'x' in lits and c[0] in ('var', 'ite'):
            return ('takes', tv, c)
        return ('other', tv, c)

    ds = dnf(s, A['blk'], within=L['blocks'])
    if not ds or len(ds) > 400:
        ctx.inconclusive('C12.R4', 'reaching condition of the accepting store not enumerable (%d disjuncts)' % len(ds))
        return
    def about_candidate(v):
        # a named boolean that is computed from the candidate move (e.g. `let matches_spec = .. && ..;`)
        from ..expr import expand_var
        d = expand_var(v)
        return d is not v and any(x == M for x in walk(norm(d)))
    cds = [[classify(g) for g in alt] for conj in ds for alt in expand_conj(conj, open_var=about_candidate)]
    opaque = [l for cl in cds for l in cl if l[0] == 'other' and any(isinstance(x, tuple) and x and x[0] == 'closure' for x in walk(l[2]))]
    if opaque:
        ctx.inconclusive('C12.R4', 'a candidate filter is expressed through a closure (`map_or`, `map`, ..) and is not analysed: ' + sh(opaque[0][2], 160))
        return
    # R4 filters
    bad = []
    comps = {}
    for cl in cds:
        kinds = {}
        for l in cl:
            kinds.setdefault(l[0], []).append(l)
        for need in ('piece', 'dest', 'promo'):
            if not any(l[1] is True for l in kinds.get(need, [])):
                bad.append('%s is not compared' % need)
            else:
                comps[need] = [l for l in kinds[need] if l[1] is True][0][2]
        for opt in ('rank', 'file'):
            eqs = [l for l in kinds.get(opt, []) if l[1] is True]
            if eqs:
                comps.setdefault(opt, eqs[0][2])
        if not any(l == ('found', False) for l in cl):
            bad.append('a candidate is accepted although one was found before')
    # rank/file: in every disjunct, either the parsed option is None or the comparison holds
    for opt in ('rank', 'file'):
        x = comps.get(opt)
        if x is None:
            bad.append('the parsed source %s never reaches a comparison' % opt)
            continue
        m = match(('field', ('variant', V('o'), 'Some'), '0'), x)
        if m is None:
            bad.append('source %s is compared with %s' % (opt, sh(x, 80)))
            continue
        O = m['o']
        for cl in cds:
            has_eq = any(l[0] == opt and l[1] is True for l in cl)
            is_none = any(l[0] == 'opt' and l[1] == O and 1 not in l[2] for l in cl)
            if not (has_eq or is_none):
                bad.append('a candidate is accepted although the given source %s differs' % opt)
    if bad:
        ctx.violation('C12.R4', KEY + ':filters', 'candidate filter incomplete: ' + '; '.join(sorted(set(bad))[:3]), where(body, A['line']))
    else:
        ctx.ok('C12.R4', 'accepting a candidate requires: piece on source = parsed piece, destination, promotion, and source rank/file when given '
               '(%d reaching conditions)' % len(cds), where(body, A['line']))
    if not bad:
        ctx.ok('C12.R3', 'a candidate is stored only if none was found before', where(body, A['line']))
    # R4c: a source specifier that was re-read as the destination is not also applied as a source filter
    dvar = comps.get('dest')
    ovars = {}
    for opt in ('rank', 'file'):
        x = comps.get(opt)
        m = match(('field', ('variant', V('o'), 'Some'), '0'), x) if x is not None else None
        if m is not None:
            ovars[opt] = m['o']
    if dvar is not None and len(ovars) == 2:
        def dnames(e):
            # expand only the variables that carry the three components (not the text cursor etc.)
            roots = {x[3] for x in (dvar, ovars['rank'], ovars['file']) if x[0] == 'var'}
            seen = 0

            def rec(x, d):
                if not isinstance(x, tuple) or not x:
                    return x
                if x[0] == 'var' and x in VAR_DEFS and x[3] in roots and d > 0:
                    return rec(VAR_DEFS[x], d - 1)
                if x[0] == 'ite':
                    return ('ite', x[1], tuple((v, rec(y, d)) for v, y in x[2]))
                return x
            return rec(e, 6)
        joint = ('tuple', (dnames(dvar), dnames(ovars['rank']), dnames(ovars['file'])))
        jp = paths_deep(joint, limit=20000)
        none = ('agg', 'core::option::Option', 'None', ())
        stale = set()
        nfb = 0
        for conds, leaf in jp:
            d, r_, f_ = leaf[1]
            fallback = any(y[0] == 'call' and y[1] == 'square::Square::make_square' for y in walk(d))
            if fallback:
                nfb += 1
                if norm(r_) != none:
                    stale.add('rank')
                if norm(f_) != none:
                    stale.add('file')
        if len(jp) >= 20000:
            ctx.note('R4c: path enumeration truncated')
        elif nfb == 0:
            ctx.note('R4c: no fallback destination (source specifier re-read as destination) found')
        elif stale:
            ctx.violation('C12.R4', KEY + ':stale-source:' + ','.join(sorted(stale)), 'when the text has no separate destination the source specifier is '
                          're-read as the destination, but the source %s stays set on some path and is still applied as a filter: such a move can never '
                          'match (e.g. a promotion push written with a check mark)' % ' and '.join(sorted(stale)), where(body, A['line']))
        else:
            ctx.ok('C12.R4', 'a source specifier re-read as the destination is cleared (rank and file None) on all %d fallback paths' % nfb, where(body, A['line']))
    # letter tables of the parsed components
    want_piece = {'N': 'Knight', 'B': 'Bishop', 'Q': 'Queen', 'R': 'Rook', 'K': 'King'}
    want_file = {c: c.upper() for c in 'abcdefgh'}
    ranks = ['First', 'Second', 'Third', 'Fourth', 'Fifth', 'Sixth', 'Seventh', 'Eighth']
    want_rank = {str(i + 1): ranks[i] for i in range(8)}
    want_promo = {'N': 'Knight', 'B': 'Bishop', 'R': 'Rook', 'Q': 'Queen'}

    def table_of(x, want, what):
        """(table, recognised)"""
        t = letter_table(x)
        t = {k: leaf_enum(v) for k, v in t.items()}
        if not t:
            t = letter_table_val(x, want)
        if not t or None in t.values():
            ctx.inconclusive('C12.R4', 'the %s letters are not read by a match on string literals (delegated or table form is not '
                             'analysed): %s' % (what, sorted(t.items())[:4]))
            return t, False
        return t, True
    if 'piece' in comps:
        px = comps['piece']
        m = match(('agg', 'core::option::Option', 'Some', (('0', V('p')),)), px)
        t, rec_ = table_of(m['p'], want_piece, 'piece') if m else ({}, True)
        if not rec_:
            pass
        elif t == want_piece:
            ctx.ok('C12.R4', 'piece letters: %s (no letter -> pawn)' % sorted(t.items()), w)
        else:
            ctx.violation('C12.R4', KEY + ':piece-letters', 'piece letter table is %s' % sorted(t.items()), w)
    for name, want in (('file', want_file), ('rank', want_rank)):
        x = comps.get(name)
        m = match(('field', ('variant', V('o'), 'Some'), '0'), x) if x is not None else None
        if m is not None:
            t, rec_ = table_of(m['o'], want, 'source ' + name)
            if not rec_:
                pass
            elif t == want:
                ctx.ok('C12.R4', 'source %s letters: %s' % (name, ''.join(sorted(t))), w)
            else:
                ctx.violation('C12.R4', KEY + ':%s-letters' % name, 'source %s table is %s' % (name, sorted(t.items())), w)
    if 'promo' in comps:
        t, rec_ = table_of(comps['promo'], want_promo, 'promotion')
        if not rec_:
            pass
        elif t == want_promo:
            ctx.ok('C12.R4', 'promotion letters: %s' % sorted(t.items()), w)
        else:
            ctx.violation('C12.R4', KEY + ':promotion-letters', 'promotion letter table is %s' % sorted(t.items()), w)
    # R3: the ambiguity error
    amb = []
    for st in rets:
        if st['blk'] in L['blocks'] or any(st['blk'] in cfg.reachable_from(b) for b in L['blocks'] if False):
            amb.append(st)
    amb_blocks = []
    for b in L['blocks']:
        for g in [dict(blk=a) for a in ()]:
            pass
    # blocks inside the loop region (or reached only from it) that return Err under found == true
    errs = [st for st in rets if match(err, norm(st['value'])) is not None]
    okamb = False
    for st in errs:
        dd = dnf(s, st['blk'])
        if not dd:
            continue
        cdd = [[classify(g) for g in conj] for conj in dd]
        if all(any(l == ('found', True) for l in cl) for cl in cdd):
            # every way of getting here has passed the component filters
            full = all(all(any(l[0] == need and l[1] is True for l in cl) for need in ('piece', 'dest', 'promo')) for cl in cdd)
            if full:
                okamb = True
                ctx.ok('C12.R3', 'a second candidate passing the component filters returns Err (ambiguous text)', where(body, st['line']))
            else:
                ctx.violation('C12.R3', KEY + ':ambiguity-early', 'the ambiguity error is raised before all component filters were applied: '
                              'a different legal move would make a unique text "ambiguous"', where(body, st['line']))
                okamb = True
    if not okamb:
        ctx.violation('C12.R3', KEY + ':no-ambiguity-check', 'no `second match => Err` path inside the candidate loop', w)
    # R5b: the two characters after the cursor are a destination square only if they parse as one -- otherwise they may
    # be optional suffixes (promotion piece and check sign: `e8Q+`) and the square read so far is the destination.
    # So no rejection may be DECIDED by the outcome of Square::from_str on the text: its failure must fall through.
    SQ_FROM_STR = '<square::Square as core::str::traits::FromStr>::from_str'
    decided_by_square = []
    for st in rets:
        v = norm(st['value'])
        is_err = match(err, v) is not None or (v[0] == 'call' and v[1].endswith('::from_residual'))
        if not is_err or st['blk'] in L['blocks']:
            continue
        for g in guards(s, st['blk'], transitive=False):
            if g['cond'] is None:
                continue
            gc = norm(g['cond'])
            from ..expr import expand_var
            probe = norm(expand_var(gc)) if gc[0] == 'var' else gc
            if any(isinstance(x, tuple) and x and x[0] == 'call' and x[1] == SQ_FROM_STR for x in walk(probe)):
                decided_by_square.append(st)
    if decided_by_square:
        ctx.violation('C12.R5', KEY + ':square-parse-rejects', 'the text is rejected because the characters after the cursor do not parse as a square; they can be '
                      'optional suffixes (promotion piece, check sign) of a move whose destination was already read, e.g. `e8Q+`',
                      where(body, decided_by_square[0]['line']))
    else:
        ctx.ok('C12.R5', 'no rejection is decided by a failed square parse (the already-read file/rank serve as destination instead)', w)
    # R5 optional tokens
    def key_of(l):
        if l[0] in ('token-ep', 'token-check', 'takes', 'other'):
            return (l[0], l[1], repr(l[2])[:4000])
        if l[0] == 'opt':
            return (l[0], repr(l[1])[:2000], l[2])
        if l[0] in ('piece', 'rank', 'file', 'dest', 'promo'):
            return (l[0], l[1])
        return l
    viol = None
    used_check = any(l[0] == 'token-check' for cl in cds for l in cl)
    for cl in cds:
        for tok in ('token-ep', 'token-check'):
            req = [l for l in cl if l[0] == tok and l[1] is True]
            if not req:
                continue
            rest = {key_of(l) for l in cl if l[0] != tok}
            implied = False
            for other in cds:
                if any(l[0] == tok and l[1] is True for l in other):
                    continue
                orest = {key_of(l) for l in other if l[0] != tok}
                if orest <= rest:
                    implied = True
                    break
            if not implied:
                viol = (tok, cl)
    # rejecting edges controlled by the absence of a token
    if viol and __import__('os').environ.get('C12_DEBUG'):
        tok, cl = viol
        for l in cl:
            print('LIT', l[0], l[1] if len(l) > 1 else '', (sh(l[2], 300) if len(l) > 2 and isinstance(l[2], tuple) else ''))
    if viol:
        tok, cl = viol
        others = sorted({l[0] for l in cl if l[0] not in (tok, 'loop', 'found')})
        ctx.violation('C12.R5', KEY + ':optional-token:' + tok, 'acceptance can require the optional %s: a move that is accepted with the token is '
                      'rejected without it (condition also involves %s)' % ("' e.p.' suffix" if tok == 'token-ep' else "'+'/'#' suffix", others),
                      where(body, A['line']))
    else:
        ctx.ok('C12.R5', "acceptance never requires an optional token: every accepting condition with ' e.p.' has a counterpart without it; "
               "'+'/'#' %s" % ('do not control the filter' if not used_check else 'are optional'), where(body, A['line']))
    # R5c: Board::en_passant() is the square of the pawn that just made its double step -- not the square a capturer lands on.
    # A condition that decides a rejection (or the skipping of a candidate) by comparing it with a destination square, without
    # stepping back from that square, refuses the genuine capture and waves through the ordinary capture of that pawn.
    EPCALL = 'board::Board::en_passant'
    seen_cmp = 0
    for b_, c_ in s.switches.items():
        cn = norm(c_)
        if not (cn[0] == 'call' and 'PartialEq' in cn[1] and (cn[1].endswith('::eq') or cn[1].endswith('::ne')) and len(cn[2]) == 2):
            continue
        sides = list(cn[2])
        if not any(x[0] == 'call' and x[1] == EPCALL for x in sides):
            continue
        other = [x for x in sides if not (x[0] == 'call' and x[1] == EPCALL)]
        if not other:
            continue
        o = other[0]
        is_some_sq = o[0] == 'agg' and o[2] == 'Some'
        # callee names reachable from the operand, named merge values (the parsed destination) expanded
        names_, seen_, stack_ = set(), set(), [o]
        while stack_:
            x_ = stack_.pop()
            if not isinstance(x_, tuple) or not x_ or id(x_) in seen_:
                continue
            seen_.add(id(x_))
            if x_[0] == 'call' and isinstance(x_[1], str):
                names_.add(x_[1].rsplit('::', 1)[-1])
                if 'Square' in x_[1] and 'from_str' in x_[1]:
                    names_.add('Square::from_str')
            if x_[0] == 'var' and x_ in VAR_DEFS:
                stack_.append(VAR_DEFS[x_])
                continue
            stack_.extend(c for c in x_ if isinstance(c, tuple))
        txt = ' '.join(sorted(names_))
        if not is_some_sq:
            continue
        seen_cmp += 1
        steps_back = bool(names_ & {'ubackward', 'backward', 'uforward', 'forward', 'udown', 'uup', 'down', 'up'})
        names_dest = bool(names_ & {'get_dest', 'make_square', 'Square::from_str'})
        if names_dest and not steps_back:
            ctx.violation('C12.R5', KEY + ':ep-square', 'a condition compares board.en_passant() (the square of the pawn that just double-stepped) '
                          'with a destination square as it stands: ' + sh(cn, 200), where(body, body.blocks[b_]['term'].get('line')))
    if seen_cmp == 0:
        ctx.ok('C12.R5', 'no rejection is decided by comparing the en-passant pawn square with a destination square', w)
    # R6 castling recogniser
    eqs = []
    for c in s.calls:
        if c['callee'] and (c['callee'].endswith('PartialEq<&B> for &A>::eq') or c['callee'] == 'core::str::traits::<impl core::cmp::PartialEq for str>::eq'):
            a = [norm(x) for x in c['argvals']]
            lit = [x[1] for x in a if x[0] == 'str']
            if lit and lit[0].startswith('O-O'):
                other = [x for x in a if x[0] != 'str']
                eqs.append((lit[0], other[0] if other else None, c))
    lits = sorted({l for l, _, _ in eqs})
    stripped = True
    for l, o, c in eqs:
        if o is None:
            stripped = False
            continue
        txt = sh(deep(o, 3), 4000)
        clos = ''
        for x in walk(deep(o, 3)):
            if x[0] == 'closure':
                cs = ctx.an().summary(x[1])
                if cs is not None:
                    clos += sh(cs.ret, 2000)
        if not ('strip_suffix' in txt + clos or 'trim_end_matches' in txt + clos or 'trim_end' in txt + clos):
            stripped = False
        elif not (("43:char" in txt + clos or "'+'" in txt + clos) and ("35:char" in txt + clos or "'#'" in txt + clos)):
            if 'trim_end_matches' not in txt + clos:
                stripped = False
    listed = {'O-O+', 'O-O#', 'O-O-O+', 'O-O-O#'} <= set(lits)
    if eqs and (stripped or listed):
        ctx.ok('C12.R6', "castling is recognised on the text with an optional '+'/'#' removed (same optional suffixes as ordinary moves)", where(body, eqs[0][2]['line']))
    elif eqs:
        ctx.violation('C12.R6', KEY + ':castle-suffix', "castling is compared by exact text %s: 'O-O+' / 'O-O#' are rejected although every other move may carry "
                      "the check suffix" % lits, where(body, eqs[0][2]['line']))
    else:
        ctx.inconclusive('C12.R6', 'castling recogniser not found')
    # castling move value
    for st in rets:
        v = norm(st['value'])
        m = match(('agg', 'core::result::Result', 'Ok', (('0', call('chess_move::ChessMove::new', V('s'), V('d'), ('agg', 'core::option::Option', 'None', ()))),)), v)
        if m is None:
            continue
        rk = call('color::Color::to_my_backrank', call('board::Board::side_to_move', ('param', 1)))
        ms = match(call('square::Square::make_square', rk, ENUM('file::File', 'E')), m['s'])
        md = match(call('square::Square::make_square', rk, V('f')), m['d'])
        okv = False
        if ms is not None and md is not None:
            # the destination file as a function of the (suffix-stripped) text: evaluate it for the two castling texts
            fexpr = push_proj(md['f'])
            got = {}
            foreign = []
            for text in ('O-O', 'O-O-O'):
                def decide(c_, vals, text=text):
                    cn = norm(c_)
                    if cn[0] == 'call' and 'PartialEq' in cn[1] and (cn[1].endswith('::eq') or cn[1].endswith('::ne')):
                        lit = [a[1] for a in cn[2] if a[0] == 'str']
                        if len(lit) == 1:
                            return as_bool((lit[0] == text) == cn[1].endswith('::eq'), vals)
                    foreign.append(cn)
                    return None
                got[text] = set(l for l in eval_tree(fexpr, decide) if l != ('never',))
            if not foreign and got['O-O'] == {ENUM('file::File', 'G')} and got['O-O-O'] == {ENUM('file::File', 'C')}:
                okv = True
            elif foreign:
                ctx.inconclusive('C12.R6', 'castling destination file depends on something other than the castling text: ' + sh(foreign[0], 160))
                continue
        if okv:
            # the text denotes CASTLING: e1g1 being among the legal moves is not enough (a rook or queen on e1 may go to g1);
            # the man on the source square must be the king
            KING = ('agg', 'core::option::Option', 'Some', (('0', ENUM('piece::Piece', 'King')),))
            kingly = False
            for g in guards(s, st['blk']):
                if g['cond'] is None:
                    continue
                cn = norm(inline_private(ctx, g['cond']))
                tv = truth(g)
                if cn[0] == 'call' and 'PartialEq' in cn[1] and (cn[1].endswith('::eq') or cn[1].endswith('::ne')) and len(cn[2]) == 2 and tv is not None:
                    pos = (cn[1].endswith('::eq') == tv)
                    for x, y in ((cn[2][0], cn[2][1]), (cn[2][1], cn[2][0])):
                        if pos and y == KING and x[0] == 'call' and x[1] == 'board::Board::piece_on':
                            kingly = True
                        if pos and x[0] == 'call' and x[1] == 'board::Board::king_square' and y[0] == 'call' and \
                                y[1] in ('square::Square::make_square', 'chess_move::ChessMove::get_source'):
                            kingly = True
                if cn[0] == 'discr' and cn[1][0] == 'field' and cn[1][1][0] == 'variant' and cn[1][1][1][0] == 'call' and \
                        cn[1][1][1][1] == 'board::Board::piece_on' and g['vals'] == [ctx.facts().enum_discr('piece::Piece', 'King')]:
                    kingly = True
            if kingly:
                ctx.ok('C12.R6', 'castling is accepted only when the king stands on the e-file home square', where(body, st['line']))
            else:
                ctx.violation('C12.R6', KEY + ':castle-king', "'O-O' / 'O-O-O' is accepted for whatever man stands on the e-file home square: when a "
                              'rook or queen there can legally go to the g- / c-file, the castling text returns that move', where(body, st['line']))
            ctx.ok('C12.R6', 'castling denotes king e-file -> g-file (O-O) / c-file (O-O-O) on the mover\'s back rank', where(body, st['line']))
        else:
            ctx.violation('C12.R6', KEY + ':castle-move', 'castling text is mapped to ' + sh(v, 300), where(body, st['line']))
