"""C04 — status is Checkmate / Stalemate / Ongoing exactly as the rules define.

R1 STATUS-TABLE: Board::status is the decision table (n = "number of legal moves is zero",
   c = "checkers == EMPTY"): (n, not c) -> Checkmate, (n, c) -> Stalemate, (not n, .) -> Ongoing; n's
   origin is len()/count() of MoveGen::new_legal on the receiver.
R2 RESULT-TABLE (shared with C10): Game::result maps (Checkmate, White to move) -> BlackCheckmates,
   (Checkmate, Black) -> WhiteCheckmates, Stalemate -> Stalemate."""
from .common import *
from ..bb import bb
from . import c10

LEVEL = 'other'
EXHAUSTIVE = True
EXPLANATION = ('Predicate abstraction of Board::status over the two atoms (no legal move, not in check) and of Game::result '
               'over (status, side to move): the explicit decision tables are extracted from the MIR and compared.')
NOT_DECIDED = 'that len() and checkers are themselves right (C14, C03, C01)'
KEY = 'board::Board::status'
SELF = ('mem', ('p', 1))
ST = 'board::BoardStatus'


def r1(ctx):
    R = 'C04.R1'
    s = summary(ctx, KEY, R)
    if s is None:
        return
    w = where(s.body)
    r = bb(s.ret, ctx.an())
    gen = call('movegen::movegen::MoveGen::new_legal', ('param', 1))
    counts = [call('<movegen::movegen::MoveGen as core::iter::traits::exact_size::ExactSizeIterator>::len', gen),
              call('core::iter::traits::iterator::Iterator::count', gen)]
    empty_tests = [call('core::iter::traits::exact_size::ExactSizeIterator::is_empty', gen)]
    results = {}
    unknown = []
    for nomoves in (True, False):
        for incheck in (True, False):
            def decide(c, vals):
                for cp in counts:
                    if match(cp, c) is not None:
                        return 0 if nomoves else 'otherwise'
                    if match(('bin', 'Eq', cp, ('int', 0, 'usize')), c) is not None:
                        return as_bool(nomoves, vals)
                if c[0] in ('bbeq', 'bbne') and set(c[1:]) == {('bb0',), ('field', SELF, 'checkers')}:
                    return as_bool((not incheck) if c[0] == 'bbeq' else incheck, vals)
                unknown.append(c)
                return None
            leaves = eval_tree(r, decide)
            results[(nomoves, incheck)] = leaves
    if unknown:
        ctx.inconclusive(R, 'status() tests something other than the move count and checkers: ' + sh(unknown[0], 200))
        return
    want = {(True, True): 'Checkmate', (True, False): 'Stalemate', (False, True): 'Ongoing', (False, False): 'Ongoing'}
    bad = []
    for k, v in want.items():
        got = results[k]
        if got != [('enum', ST, v)]:
            bad.append('(no legal move=%s, in check=%s) -> %s, expected %s' % (k[0], k[1], [sh(g, 40) for g in got], v))
    if bad:
        ctx.violation(R, KEY, 'status decision table wrong: ' + '; '.join(bad), w)
    else:
        ctx.ok(R, 'status table: (none, check)->Checkmate, (none, no check)->Stalemate, (some, *)->Ongoing; count taken from '
               'MoveGen::new_legal(self)', w)


def run(ctx):
    r1(ctx)
    c10.r4(ctx, rule='C04.R2', only_status=True)
