"""C04 — status is Checkmate / Stalemate / Ongoing exactly as the rules define.

R1 STATUS-TABLE: Board::status is the decision table (n = "number of legal moves is zero",
   c = "checkers == EMPTY"): (n, not c) -> Checkmate, (n, c) -> Stalemate, (not n, .) -> Ongoing; n's
   origin is len()/count() of MoveGen::new_legal on the receiver.
R2 RESULT-TABLE (shared with C10): Game::result maps (Checkmate, White to move) -> BlackCheckmates,
   (Checkmate, Black) -> WhiteCheckmates, Stalemate -> Stalemate.
R3 IN-CHECK (= C03.R2/R3) and R4 NO-MOVE (= C14.R1, C01.R2-R4): the structural rules behind the two atoms of the
   table -- the checkers cache is fresh and complete in every produced Board; len() counts what the list builder
   pushed; the list builder covers every piece kind with the pin and check masks."""
from .common import *
from ..bb import bb
from . import c10

LEVEL = 'other'
EXHAUSTIVE = True
EXPLANATION = ('Predicate abstraction of Board::status over the two atoms (no legal move, not in check) and of Game::result '
               'over (status, side to move): the explicit decision tables are extracted from the MIR and compared.')
NOT_DECIDED = 'that the generated move set equals the FIDE move set for every position (values; see C01)'
KEY = 'board::Board::status'
SELF = ('mem', ('p', 1))
ST = 'board::BoardStatus'


def r1(ctx):
    R = 'C04.R1'
    s = summary(ctx, KEY, R)
    if s is None:
        return
    w = where(s.body)
    r = bb(s.ret, ctx.an())
    gen = call('movegen::movegen::MoveGen::new_legal', ('param', 1))
    counts = [call('<movegen::movegen::MoveGen as core::iter::traits::exact_size::ExactSizeIterator>::len', gen),
              call('core::iter::traits::iterator::Iterator::count', gen)]
    empty_tests = [call('core::iter::traits::exact_size::ExactSizeIterator::is_empty', gen)]
    seen = set()

    def table(foreign):
        results = {}
        unknown = []
        for nomoves in (True, False):
            for nck in (0, 1, 2):
                incheck = nck > 0

                def decide(c, vals, nck=nck, incheck=incheck):
                    for cp in counts:
                        if match(cp, c) is not None:
                            seen.add('n')
                            return 0 if nomoves else 'otherwise'
                        if match(('bin', 'Eq', cp, ('int', 0, 'usize')), c) is not None or match(('bin', 'Lt', cp, ('int', 1, 'usize')), c) is not None:
                            seen.add('n')
                            return as_bool(nomoves, vals)
                        if match(('bin', 'Ne', cp, ('int', 0, 'usize')), c) is not None or match(('bin', 'Gt', cp, ('int', 0, 'usize')), c) is not None \
                                or match(('bin', 'Ge', cp, ('int', 1, 'usize')), c) is not None:
                            seen.add('n')
                            return as_bool(not nomoves, vals)
                    for et in empty_tests:
                        if match(et, c) is not None:
                            seen.add('n')
                            return as_bool(nomoves, vals)
                    if c[0] in ('bbeq', 'bbne') and set(c[1:]) == {('bb0',), ('field', SELF, 'checkers')}:
                        seen.add('c')
                        return as_bool((not incheck) if c[0] == 'bbeq' else incheck, vals)
                    # the same test through the number of checkers: `match checkers.popcnt() {0 => .., 1 => .., _ => ..}`
                    PC = ('popcnt', ('field', SELF, 'checkers'))
                    if c == PC or (c[0] == 'cast' and c[1] == PC):
                        seen.add('c')
                        return nck if nck in vals else 'otherwise'
                    if c[0] == 'bin' and c[1] in ('Eq', 'Ne', 'Lt', 'Le', 'Gt', 'Ge') and c[2] == PC and c[3][0] == 'int':
                        seen.add('c')
                        k_ = c[3][1]
                        return as_bool({'Eq': nck == k_, 'Ne': nck != k_, 'Lt': nck < k_, 'Le': nck <= k_, 'Gt': nck > k_, 'Ge': nck >= k_}[c[1]], vals)
                    k = sh(c, 200)
                    if k in foreign and set(vals) <= {0, 1, 'otherwise'}:
                        return as_bool(foreign[k], vals)
                    unknown.append(c)
                    return None
                results[(nomoves, nck)] = eval_tree(r, decide)
        return results, unknown
    want = {(True, 1): 'Checkmate', (True, 2): 'Checkmate', (True, 0): 'Stalemate', (False, 0): 'Ongoing', (False, 1): 'Ongoing', (False, 2): 'Ongoing'}

    def wrong(results):
        bad = []
        for k, v in want.items():
            got = results[k]
            if got != [('enum', ST, v)]:
                bad.append('(no legal move=%s, checkers=%s) -> %s, expected %s' % (k[0], k[1], [sh(g, 40) for g in got], v))
        return bad
    results, unknown = table({})
    if unknown:
        # Foreign atoms (conditions over anything but the move count and checkers) are treated as free: if the table is
        # right under every valuation they are harmless; if the two proper atoms are both still consulted and some
        # valuation of a foreign atom yields a wrong row, status() answers without (or against) the defining test there.
        names = []
        for c in unknown:
            if sh(c, 200) not in names:
                names.append(sh(c, 200))
        names_all = list(names)
        grow = True
        failing = None
        import itertools
        while grow and len(names_all) <= 4:
            grow = False
            failing = None
            for bits in itertools.product((True, False), repeat=len(names_all)):
                val = dict(zip(names_all, bits))
                res, unk = table(val)
                new = [sh(c, 200) for c in unk if sh(c, 200) not in names_all]
                if new:
                    names_all.extend(sorted(set(new)))
                    grow = True
                    break
                b = wrong(res)
                if b and failing is None:
                    failing = (val, b)
        if grow or len(names_all) > 4:
            ctx.inconclusive(R, 'status() tests something other than the move count and checkers: ' + names_all[0])
            return
        if failing is None:
            ctx.ok(R, 'status table right under every valuation of the additional condition(s) %s' % names_all, w)
            return
        if {'n', 'c'} <= seen:
            val, b = failing
            ctx.violation(R, KEY + ':foreign-condition', 'status() answers from a condition that is neither the move count nor the checkers: when %s, %s' % (
                ', '.join('%s is %s' % (k, v) for k, v in val.items()), '; '.join(b)), w)
        else:
            ctx.inconclusive(R, 'status() replaces the move-count or checkers test by another condition: ' + names_all[0])
        return
    bad = wrong(results)
    if bad:
        ctx.violation(R, KEY, 'status decision table wrong: ' + '; '.join(bad), w)
    else:
        ctx.ok(R, 'status table: (none, check)->Checkmate, (none, no check)->Stalemate, (some, *)->Ongoing; count taken from '
               'MoveGen::new_legal(self)', w)


def deps(ctx):
    """The two atoms of the table must themselves be right.  R3 IN-CHECK (= C03.R2/R3): `checkers` is recomputed from
    scratch or incrementally after the last placement change by every Board producer, with the full attacker set.
    R4 NO-MOVE (= C14.R1 and C01.R2-R4): len() of a fresh generator counts exactly the entries the list builder pushed,
    and the list builder dispatches every piece kind with the pin and check masks."""
    from . import c03, c14, c01
    sub = Sub(ctx, {'C03.R2': 'C04.R3', 'C03.R3': 'C04.R3'})
    rec = c03.r2(sub)
    c03.r3(sub, rec)
    sub = Sub(ctx, {'C14.R1': 'C04.R4', 'C01.R2': 'C04.R4', 'C01.R3': 'C04.R4', 'C01.R4': 'C04.R4'})
    c14.r1(sub)
    c01.r2(sub)
    c01.r3(sub)
    c01.r4(sub)


def run(ctx):
    bb(('unit',), ctx.an())
    r1(ctx)
    c10.r4(ctx, rule='C04.R2', only_status=True)
    deps(ctx)
    # R5 GEOMETRY (= C16.R1/R2, C15.R1/R2): the tables and lookups the move count and the check test are computed from
    tables_dep(ctx, 'C04.R5', ['board::Board::status', 'movegen::movegen::MoveGen::new_legal', 'board::Board::update_pin_info'])
