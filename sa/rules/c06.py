"""C06 — FEN output is standard and round-trips; standard FEN input is understood.

R1 EP-RANK: the square formatted in the en-passant field has, by finite-map extraction over the
   side to move, rank {White to move -> Sixth, Black to move -> Third} and the stored file.
R2 LETTER-TABLES: the 12 piece letters the writer can emit are exactly the inverse of the scanner's
   character table; side letters; castling letters vs the scanner's K Q k q tests; '-' handling.
R3 SIX-FIELDS: on the spine of the writer the parts are, in order: placement (ranks 8..1, files
   a..h, '/' between ranks), ' ', side letter + ' ', White rights, Black rights, ('-' iff none),
   ' ', en-passant square or '-', ' 0 1'.
R4 COMPONENT-COPY: From<&Board> for BoardBuilder reads all squares through piece_on / color_on, the
   side to move, White's rights into the White slot and Black's into the Black slot, and the file of
   en_passant(); TryFrom<&BoardBuilder> for Board writes each back with the same pairings.
R5 EP-PRESENCE: the field is the square iff the stored option is Some, else '-'."""
from .common import *
from .textfmt import *
from ..expr import mk_constref

LEVEL = 'other'
EXHAUSTIVE = True
EXPLANATION = ('Reader/writer agreement for FEN extracted from the MIR of Display/FromStr/From/TryFrom: literal pieces and '
               'argument expressions of every write, their order on the CFG spine, finite maps over Color for the '
               'en-passant rank, the scanner\'s character table from its stores and guards, decision tables of the castling '
               'tests, and the pairing of components in both conversions.')
NOT_DECIDED = 'correctness of the run-length (digit) encoding loop; round-trip equality as such; acceptance of every standard FEN'

DISP = '<board_builder::BoardBuilder as core::fmt::Display>::fmt'
SCAN = '<board_builder::BoardBuilder as core::str::traits::FromStr>::from_str'
FROMB = '<board_builder::BoardBuilder as core::convert::From<&board::Board>>::from'
TRYF = '<board::Board as core::convert::TryFrom<&board_builder::BoardBuilder>>::try_from'
SELF = ('mem', ('p', 1))
COLOR = 'color::Color'
W, B = ENUM(COLOR, 'White'), ENUM(COLOR, 'Black')
NOT = '<color::Color as core::ops::bit::Not>::not'
KEEP = ('square::Square::get_rank', 'square::Square::get_file', 'square::Square::make_square')


def replace(e, old, new):
    if e == old:
        return new
    if isinstance(e, tuple):
        return tuple(replace(x, old, new) for x in e)
    return e


def square_algebra(e):
    """get_rank(make_square(r, f)) -> r ; get_file(make_square(r, f)) -> f   (shapes checked by C16.R3 / C20.R2)"""
    if not isinstance(e, tuple) or not e:
        return e
    e = tuple(square_algebra(x) if isinstance(x, tuple) else x for x in e)
    if e[0] == 'call' and e[1] in ('square::Square::get_rank', 'square::Square::get_file') and e[2]:
        a = e[2][0]
        if a[0] == 'call' and a[1] == 'square::Square::make_square':
            return a[2][0] if e[1].endswith('get_rank') else a[2][1]
    return e


def writes(s):
    out = []
    for c in s.calls:
        if c['callee'].endswith('write_fmt') and len(c['argvals']) > 1:
            out.append((c, fmt_parts(c['argvals'][1])))
    return out


def r1_r5(ctx):
    s = summary(ctx, DISP, 'C06.R1')
    if s is None:
        return
    il = inliner(ctx)
    ws = writes(s)
    GEP = call('board_builder::BoardBuilder::get_en_passant', ('param', 1))
    ep_writes = []
    dash_after = []
    for c, parts in ws:
        if parts and len(parts) == 1 and parts[0][0] == 'arg' and any(match(GEP, x) is not None for x in walk(norm(parts[0][1]))):
            ep_writes.append((c, parts[0][1]))
    if len(ep_writes) != 1:
        ctx.inconclusive('C06.R1', 'en-passant write not recognised in the FEN writer (%d candidates)' % len(ep_writes))
        return
    c, E = ep_writes[0]
    w = where(s.body, c['line'])
    # R5 presence
    gs = [g for g in guards(s, c['blk'], transitive=False) if g['cond'] is not None]
    some_guard = any(match(('discr', GEP), norm(g['cond'])) is not None and g['vals'] == [1] for g in gs)
    dash = None
    for c2, parts in ws:
        if parts == [('lit', '-')]:
            g2 = [g for g in guards(s, c2['blk'], transitive=False) if g['cond'] is not None]
            if any(match(('discr', GEP), norm(g['cond'])) is not None and g['vals'] != [1] for g in g2):
                dash = c2
    if some_guard and dash is not None:
        ctx.ok('C06.R5', "en-passant field: the square iff get_en_passant() is Some, otherwise '-'", w)
    else:
        ctx.violation('C06.R5', DISP + ':ep-presence', "the en-passant field is not `Some(sq) => sq, None => '-'`", w)
    # R1 rank by finite map over the side to move
    ge = summary(ctx, 'board_builder::BoardBuilder::get_en_passant', 'C06.R1')
    if ge is None:
        return
    m = match(call('core::option::Option::<T>::map', ('field', SELF, 'en_passant'), ('closure', V('k'), V('caps'))), norm(ge.ret))
    FILE = ('field', ('variant', ('field', SELF, 'en_passant'), 'Some'), '0')
    if m is None:
        # the same thing as an explicit `match self.en_passant { Some(f) => Some(square), None => None }`
        EPF = ('field', SELF, 'en_passant')
        none = ('agg', 'core::option::Option', 'None', ())
        some_leaf, none_leaf = [], []
        for tag, acc in ((1, some_leaf), (0, none_leaf)):
            def decide(c_, vals, tag=tag):
                if norm(c_) == ('discr', EPF):
                    return tag if tag in vals else 'otherwise'
                return None
            acc += [l for l in tree_leaves(concretise(norm(ge.ret), decide)) if l != ('never',)]
        mm_ = match(('agg', 'core::option::Option', 'Some', (('0', V('sq')),)), some_leaf[0]) if len(some_leaf) == 1 else None
        if mm_ is None or none_leaf != [none]:
            ctx.inconclusive('C06.R1', 'get_en_passant is neither en_passant.map(closure) nor a match on en_passant: ' + sh(ge.ret, 200))
            return
        stored = mm_['sq']
    else:
        cs = ctx.an().summary(m['k'])
        # closure(captures, file): captured self -> the receiver
        body = norm(cs.ret)
        body = replace(body, ('mem', ('h', ('mem', ('h', ('field', ('param', 1), '0'))))), SELF)
        body = replace(body, ('mem', ('h', ('field', ('mem', ('p', 1)), '0'))), SELF)
        body = replace(body, ('param', 2), FILE)
        stored = body     # the Square get_en_passant yields when Some
    gep_actual = [x for x in walk(norm(E)) if match(GEP, x) is not None][0]
    printed = replace(norm(E), ('field', ('variant', gep_actual, 'Some'), '0'), stored)
    ranks = {}
    files = {}
    for stm, want in (('White', 'Sixth'), ('Black', 'Third')):
        e = replace(printed, ('field', SELF, 'side_to_move'), ENUM(COLOR, stm))
        e = replace(e, call('board_builder::BoardBuilder::get_side_to_move', SELF, gargs=()), ENUM(COLOR, stm))
        e = replace(e, ('call', 'board_builder::BoardBuilder::get_side_to_move', (('param', 1),), ()), ENUM(COLOR, stm))
        for _ in range(4):
            e = square_algebra(norm(il.inline(e, only=lambda k: k not in KEEP)))
        mm = match(call('square::Square::make_square', V('r'), V('f')), e)
        if mm is None:
            ranks[stm] = sh(e, 160)
            continue
        ranks[stm] = mm['r'][2] if mm['r'][0] == 'enum' else sh(mm['r'], 80)
        files[stm] = mm['f']
    if ranks == {'White': 'Sixth', 'Black': 'Third'} and all(v == FILE for v in files.values()):
        ctx.ok('C06.R1', 'en-passant field square: rank Sixth when White is to move, Third when Black is to move; file = stored file', w)
    else:
        ctx.violation('C06.R1', DISP + ':ep-rank', 'en-passant field names rank %s (required: White to move -> Sixth, Black to move -> Third)' % ranks, w)


def r2(ctx):
    R = 'C06.R2'
    letters = piece_letters(ctx, R)
    if letters is None:
        ctx.inconclusive(R, 'Piece display table not recognised')
        return
    # Piece::to_string(piece, colour): upper-case iff White
    s = summary(ctx, 'piece::Piece::to_string', R)
    if s is None:
        return
    r = norm(s.ret)
    # per colour (however the colour test is spelled): White -> to_uppercase(display(piece)), Black -> display(piece)
    white_br = specialise(ctx, s, {2: W}, nparams=2)
    black_br = specialise(ctx, s, {2: B}, nparams=2)
    up = [x for x in walk(white_br) if x[0] == 'call' and x[1] == 'alloc::str::<impl str>::to_uppercase']
    up_b = [x for x in walk(black_br) if x[0] == 'call' and 'to_uppercase' in x[1]]
    lo_w = [x for x in walk(white_br) if x[0] == 'call' and 'to_lowercase' in x[1]]
    pw, pb = fmt_parts(white_br), fmt_parts(black_br)
    undecided = any(x[0] == 'ite' for x in walk(white_br)) or any(x[0] == 'ite' for x in walk(black_br))
    if undecided:
        ctx.inconclusive(R, 'Piece::to_string: colour dispatch not resolved: ' + sh(r, 200))
        return
    if not (up and not up_b and not lo_w and pw == [('arg', ('param', 1))] and pb == [('arg', ('param', 1))]):
        ctx.violation(R, 'piece::Piece::to_string', 'piece letter is not "display letter, upper-cased iff White": White -> %s, Black -> %s' % (
            sh(white_br, 160), sh(black_br, 160)), where(s.body))
        return
    writer = {}
    for p, l in letters.items():
        writer[(p, 'White')] = l.upper()
        writer[(p, 'Black')] = l
    ctx.ok(R, 'writer piece letters: %s' % ''.join(writer[k] for k in sorted(writer)), where(s.body))
    # scanner table
    sc = summary(ctx, SCAN, R)
    if sc is None:
        return
    loops = for_loops(sc)
    if len(loops) != 1:
        ctx.inconclusive(R, 'placement scan loop not recognised')
        return
    require_no_break(ctx, R, sc, loops[0], SCAN, 'the placement characters', 'the rest of the placement field is ignored')
    CH = norm(loops[0]['elem'])
    scanner = {}
    for st in sc.stores:
        if st.get('local'):
            continue
        v = norm(st['value'])
        m = match(('agg', 'core::option::Option', 'Some', (('0', ('tuple', (V('p'), V('c')))),)), v)
        if m is None or m['p'][0] != 'enum' or m['c'][0] != 'enum':
            continue
        for g in guards(sc, st['blk'], transitive=False):
            if g['cond'] is not None and norm(g['cond']) == CH and g['vals'] and 'otherwise' not in g['vals']:
                for val in g['vals']:
                    scanner[chr(val)] = (m['p'][2], m['c'][2])
    inv = {l: k for k, l in writer.items()}
    if scanner == inv and len(inv) == 12:
        ctx.ok(R, 'scanner character table is exactly the inverse of the writer table (12 letters)', where(sc.body))
    else:
        diff = {k: (scanner.get(k), inv.get(k)) for k in set(scanner) | set(inv) if scanner.get(k) != inv.get(k)}
        ctx.violation(R, SCAN + ':piece-letters', 'scanner and writer disagree on %s (scanner, writer)' % diff, where(sc.body))
    # side to move
    d = summary(ctx, DISP, R)
    side_ok = {}
    STMF = ('field', SELF, 'side_to_move')
    for c, parts in writes(d):
        if parts in ([('lit', 'w ')], [('lit', 'b ')]):
            # for which side to move is this write reached?  (the test may be ==, !=, a match, negated, with swapped arms)
            reached = []
            for colour in ('White', 'Black'):
                def decide(c_, vals, colour=colour):
                    cn = norm(c_)
                    if cn[0] == 'call' and 'PartialEq' in cn[1] and (cn[1].endswith('::eq') or cn[1].endswith('::ne')) and len(cn[2]) == 2:
                        ops = [norm(il_fold(ctx, a_)) if a_[0] == 'call' else a_ for a_ in cn[2]]    # accessor form
                        for x, y in ((ops[0], ops[1]), (ops[1], ops[0])):
                            if x == STMF and y in (W, B):
                                return as_bool((y[2] == colour) == cn[1].endswith('::eq'), vals)
                    if cn[0] == 'discr' and (cn[1] == STMF or (cn[1][0] == 'call' and norm(il_fold(ctx, cn[1])) == STMF)):
                        return ctx.facts().enum_discr(COLOR, colour)
                    return None
                if any(conj_possible(conj, decide) for conj in dnf(d, c['blk'])):
                    reached.append(colour)
            side_ok[parts[0][1]] = reached[0] if len(reached) == 1 else reached
    if side_ok == {'w ': 'White', 'b ': 'Black'}:
        ctx.ok(R, "writer side field: 'w ' iff White to move, 'b ' iff Black", where(d.body))
    else:
        ctx.violation(R, DISP + ':side', 'side-to-move field is %s' % side_ok, where(d.body))
    # scanner side: calls fen.side_to_move(c) guarded by token comparisons
    sside = {}
    for c in sc.calls:
        if c['callee'] == 'board_builder::BoardBuilder::side_to_move':
            col = norm(c['argvals'][1])
            for conj in dnf(sc, c['blk']):
                for g in conj:
                    if g['cond'] is None:
                        continue
                    cn = norm(g['cond'])
                    if cn[0] == 'call' and cn[1] == 'core::str::traits::<impl core::cmp::PartialEq for str>::eq' and g['truth'] is True:
                        lits = [a[1] for a in cn[2] if a[0] == 'str']
                        # only the innermost positive test of a disjunct decides
                        for l in lits:
                            sside.setdefault(col[2] if col[0] == 'enum' else '?', set()).add(l)
    if 'w' in sside.get('White', ()) and 'b' in sside.get('Black', ()) and not (sside.get('White', set()) & sside.get('Black', set())):
        ctx.ok(R, 'scanner side field: %s' % {k: sorted(v) for k, v in sside.items()}, where(sc.body))
    else:
        ctx.violation(R, SCAN + ':side', 'scanner maps side tokens %s' % {k: sorted(v) for k, v in sside.items()}, where(sc.body))
    # castling letters: writer table
    s = summary(ctx, 'castle_rights::CastleRights::to_string', R)
    if s is not None:
        r = norm(s.ret)
        table = None
        for x in walk(r):
            if x[0] == 'ite' and x[1] == ('discr', ('mem', ('p', 1))):
                table = {ctx.facts().enum_variant('castle_rights::CastleRights', v): leaf[1] for v, leaf in x[2]
                         if v != 'otherwise' and leaf[0] == 'str'}
        wb, bbr = specialise(ctx, s, {2: W}, nparams=2), specialise(ctx, s, {2: B}, nparams=2)
        has_up = lambda e: any(x[0] == 'call' and 'to_uppercase' in x[1] for x in walk(e))
        upper_white = has_up(wb) and not has_up(bbr)
        if table == {'NoRights': '', 'KingSide': 'k', 'QueenSide': 'q', 'Both': 'kq'} and upper_white:
            ctx.ok(R, "writer castling letters: '' k q kq, upper-cased for White", where(s.body))
        else:
            ctx.violation(R, 'castle_rights::CastleRights::to_string', 'castling letter table is %s (upper-case for White: %s)' % (table, upper_white), where(s.body))
    # scanner castling decision tables
    for col, (k, q) in (('White', ('K', 'Q')), ('Black', ('k', 'q'))):
        # which right is stored for each (has king-side letter, has queen-side letter): every store into the colour's slot is
        # evaluated -- its reaching condition and its value -- under the four valuations of the two `contains` tests
        want = {(True, True): 'Both', (True, False): 'KingSide', (False, True): 'QueenSide', (False, False): 'NoRights'}
        bad = []
        foreign = set()
        slot_stores = []
        for st in sc.stores:
            if st.get('local'):
                continue
            path = st['target'][2]
            if len(path) < 2 or path[-2] != ('f', 'castle_rights'):
                continue
            idx = norm(il_fold(ctx, path[-1][1]))
            if idx == ('int', ctx.facts().enum_discr(COLOR, col), 'usize'):
                slot_stores.append(st)
        for (hk, hq), right in want.items():
            def decide(c_, vals, hk=hk, hq=hq):
                cn = norm(c_)
                if cn[0] == 'call' and cn[1] == 'core::str::<impl str>::contains' and \
                        (cn[2][1][0] == 'str' or (cn[2][1][0] == 'int' and len(cn[2][1]) > 2 and cn[2][1][2] == 'char')):
                    lit = cn[2][1][1] if cn[2][1][0] == 'str' else chr(cn[2][1][1])       # contains("K") or contains('K')
                    if lit == k:
                        return as_bool(hk, vals)
                    if lit == q:
                        return as_bool(hq, vals)
                    foreign.add(lit)
                    return None
                return None
            stored = set()
            for st in slot_stores:
                if not any(conj_possible(conj, decide) for conj in dnf(sc, st['blk'])):
                    continue
                for leaf in eval_tree(norm(st['value']), decide):
                    stored.add(leaf[2] if leaf[0] == 'enum' else sh(leaf, 60))
            if stored != {right}:
                bad.append('with %s%s present the stored right is %s, expected %s' % (
                    k if hk else 'no ' + k, ' and ' + (q if hq else 'no ' + q), sorted(stored) or 'never stored', right))
        if foreign - {k, q, 'K', 'Q', 'k', 'q'}:
            bad.append('depends on letters %s' % sorted(foreign - {k, q}))
        if bad:
            ctx.violation(R, SCAN + ':castling:' + col, '%s castling scan wrong: %s' % (col, '; '.join(bad)), where(sc.body))
        else:
            ctx.ok(R, "scanner %s rights from '%s'/'%s': Both, KingSide, QueenSide, NoRights under the matching tests" % (col, k, q), where(sc.body))


def il_fold(ctx, e):
    return inliner(ctx).inline(e)


def r3(ctx):
    R = 'C06.R3'
    s = summary(ctx, DISP, R)
    if s is None:
        return
    cfg = s.cfg
    order = {b: i for i, b in enumerate(cfg.order)}
    ws = writes(s)
    seq = []
    for c, parts in sorted(ws, key=lambda x: order.get(x[0]['blk'], 1 << 30)):
        in_loop = bool(cfg.in_loop(c['blk']))
        if parts is None:
            seq.append(('?', in_loop, c))
            continue
        if len(parts) == 1 and parts[0][0] == 'lit':
            seq.append((parts[0][1], in_loop, c))
        elif len(parts) == 1:
            a = norm(parts[0][1])
            if a[0] == 'call' and a[1] == 'castle_rights::CastleRights::to_string':
                col = a[2][1]
                slot = norm(inliner(ctx).inline(a[2][0]))
                want = ('index', ('field', SELF, 'castle_rights'), ('int', ctx.facts().enum_discr(COLOR, col[2]) if col[0] == 'enum' else -1, 'usize'))
                seq.append(('<rights %s%s>' % (col[2] if col[0] == 'enum' else '?', '' if slot == want else ' WRONG-SLOT'), in_loop, c))
            elif a[0] == 'call' and a[1] == 'piece::Piece::to_string':
                seq.append(('<piece>', in_loop, c))
            elif any(x[0] == 'call' and x[1] == 'board_builder::BoardBuilder::get_en_passant' for x in walk(a)):
                seq.append(('<ep>', in_loop, c))
            elif a[0] == 'loop' or a[0] == 'ite':
                seq.append(('<count>', in_loop, c))
            else:
                seq.append(('<?%s>' % sh(a, 40), in_loop, c))
        else:
            seq.append(('<multi>', in_loop, c))
    spine = [x[0] for x in seq if not x[1]]
    loop_parts = [x[0] for x in seq if x[1]]
    # writes in the two arms of one decision are alternatives: group neighbours that cannot both execute
    groups = []
    for x in [y for y in seq if not y[1]]:
        b_ = x[2]['blk']
        if groups and all(not cfg.can_reach(o[2]['blk'], b_) and not cfg.can_reach(b_, o[2]['blk']) for o in groups[-1]):
            groups[-1].append(x)
        else:
            groups.append([x])
    gspine = [frozenset(o[0] for o in g) for g in groups]
    F = frozenset
    want_g = [F([' ']), F(['w ', 'b ']), F(['<rights White>']), F(['<rights Black>']), F(['-']), F([' ']), F(['<ep>', '-']), F([' 0 1'])]
    if gspine == want_g:
        ctx.ok(R, "writer spine after the placement: ' ', side, White rights, Black rights, ['-'], ' ', ep|'-', ' 0 1'", where(s.body))
    else:
        ctx.violation(R, DISP + ':spine', 'FEN fields are written as %s' % spine, where(s.body))
    # writes that happen inside a crate helper handed the formatter (`fn flush_empties(f, &mut count)`) are not in this body
    fmt_helpers = sorted({c['callee'] for c in s.calls if c['callee'] in ctx.facts().bodies and '::{closure' not in c['callee'] and
                          any('Formatter' in str(t_) for t_ in (ctx.facts().fns.get(c['callee']) or {}).get('inputs', [])) and
                          c['callee'] != DISP and not c['callee'].endswith('::to_string')})
    if sorted(set(loop_parts)) == sorted({'<count>', '<piece>', '/'}):
        ctx.ok(R, "placement loops write digit runs, piece letters and '/' only", where(s.body))
    elif fmt_helpers:
        ctx.inconclusive(R, 'part of the placement field is written by the helper %s, which this rule does not follow' % fmt_helpers[0])
    else:
        ctx.violation(R, DISP + ':placement-parts', 'placement loops write %s' % sorted(set(loop_parts)), where(s.body))
    # loop structure: ranks reversed (8..1) outside, files a..h inside; '/' unless the rank is First; '-' iff both NoRights
    loops = for_loops(s)
    for l_ in loops:
        require_no_break(ctx, R, s, l_, DISP, 'ranks / files', 'the remaining squares are not written')
    srcs = sorted(sh(l['source'], 200) for l in loops)
    outer = [l for l in loops if 'ALL_RANKS' in sh(l['source'], 300)]
    inner = [l for l in loops if 'ALL_FILES' in sh(l['source'], 300)]
    ok = False
    if len(outer) == 1 and len(inner) == 1:
        o, i = outer[0], inner[0]
        osrc = norm(o['source'])
        rev = osrc[0] == 'call' and osrc[1] == 'core::iter::traits::iterator::Iterator::rev'
        nested = i['blocks'] < o['blocks']
        isrc = norm(i['source'])
        fwd = isrc[0] == 'call' and isrc[1] == 'core::slice::<impl [T]>::iter'
        ok = rev and nested and fwd
    index_loop = any(norm(l['source'])[0] == 'agg' and 'Range' in str(norm(l['source'])[1]) for l in loops if l['source'] is not None)
    if ok:
        ctx.ok(R, 'placement order: ranks 8..1 (ALL_RANKS reversed) outside, files a..h (ALL_FILES) inside', where(s.body))
    elif index_loop:
        ctx.inconclusive(R, 'the ranks / files are visited by index arithmetic (`for i in 0..n` with `ALL_RANKS[n - 1 - i]`): the order is not analysed')
    else:
        ctx.violation(R, DISP + ':placement-order', 'placement loops are %s' % srcs, where(s.body))
    # piece argument comes from the slot of make_square(rank, file)
    for c, parts in ws:
        if parts and len(parts) == 1 and parts[0][0] == 'arg':
            a = norm(parts[0][1])
            if a[0] == 'call' and a[1] == 'piece::Piece::to_string' and len(outer) == 1 and len(inner) == 1:
                RK = ('mem', ('h', norm(outer[0]['elem'])))
                FL = ('mem', ('h', norm(inner[0]['elem'])))
                slot = ('index', ('field', SELF, 'pieces'), call('square::Square::to_index', call('square::Square::make_square', RK, FL)))
                pay = ('field', ('variant', slot, 'Some'), '0')
                if match(('field', pay, '0'), a[2][0]) is not None and match(('field', pay, '1'), a[2][1]) is not None:
                    ctx.ok(R, 'piece letter is taken from pieces[make_square(rank, file)] (piece, colour) of the loop square', where(s.body, c['line']))
                elif index_loop:
                    pass        # the loop square is computed by index arithmetic: reported as not analysed above
                else:
                    ctx.violation(R, DISP + ':slot', 'piece letter argument is %s' % sh(a, 300), where(s.body, c['line']))
    # the castling '-' is written iff neither side has rights
    il = inliner(ctx)
    for c, parts in ws:
        if parts != [('lit', '-')]:
            continue
        disj = dnf(s, c['blk'])
        is_castle_dash = False
        for g in guards(s, c['blk'], transitive=False):
            if g['cond'] is not None and any(x[0] == 'index' and x[1] == ('field', SELF, 'castle_rights') for x in walk(norm(il.inline(g['cond'])))):
                is_castle_dash = True
        if not is_castle_dash:
            continue
        # reachability of the '-' write under the four valuations of (White has no rights, Black has no rights)
        nr = ctx.facts().enum_discr('castle_rights::CastleRights', 'NoRights')
        foreign = []
        bad = []
        for wn in (True, False):
            for bn in (True, False):
                def decide(c_, vals, wn=wn, bn=bn):
                    cn = norm(il.inline(c_))
                    for op in ('Eq', 'Ne'):
                        m = match(('bin', op, ('discr', V('slot')), ('int', nr, 'isize')), cn)
                        if m is not None and m['slot'][0] == 'index' and m['slot'][1] == ('field', SELF, 'castle_rights') and m['slot'][2][0] == 'int':
                            none_here = wn if m['slot'][2][1] == 0 else bn
                            return as_bool(none_here == (op == 'Eq'), vals)
                    if cn[0] == 'call' and 'PartialEq' in cn[1] and (cn[1].endswith('::eq') or cn[1].endswith('::ne')) and len(cn[2]) == 2:
                        for x, y in ((cn[2][0], cn[2][1]), (cn[2][1], cn[2][0])):
                            if x[0] == 'index' and x[1] == ('field', SELF, 'castle_rights') and x[2][0] == 'int' and \
                                    y == ENUM('castle_rights::CastleRights', 'NoRights'):
                                none_here = wn if x[2][1] == 0 else bn
                                return as_bool(none_here == cn[1].endswith('::eq'), vals)
                    if (cn[0] == 'bin' or (cn[0] == 'call' and 'PartialEq' in cn[1])) and \
                            any(x[0] == 'index' and x[1] == ('field', SELF, 'castle_rights') for x in walk(cn)):
                        foreign.append(cn)
                    return None
                reach = any(conj_possible(conj, decide) for conj in disj)
                if reach != (wn and bn):
                    bad.append((wn, bn, reach))
        if is_castle_dash:
            if not bad and not foreign:
                ctx.ok(R, "castling field is '-' exactly when both colours have NoRights", where(s.body, c['line']))
            elif foreign and not bad:
                ctx.inconclusive(R, "the castling '-' depends on a test of the rights that is not understood: " + sh(foreign[0], 120))
            else:
                ctx.violation(R, DISP + ':castling-dash', "the castling '-' is written under a condition other than `both sides have no rights` "
                              "(e.g. White none=%s, Black none=%s -> written=%s)" % bad[0], where(s.body, c['line']))
    for c, parts in ws:
        if parts == [('lit', '/')]:
            gs = [g for g in guards(s, c['blk'], transitive=False) if g['cond'] is not None]
            okr = False
            for g in gs:
                cn = norm(g['cond'])
                if cn[0] == 'call' and (cn[1] == 'core::cmp::PartialEq::ne' or cn[1].endswith('PartialEq>::ne')) and ENUM('rank::Rank', 'First') in cn[2] and truth(g) is True:
                    okr = True
                if cn[0] == 'call' and cn[1].endswith('PartialEq>::eq') and ENUM('rank::Rank', 'First') in cn[2] and truth(g) is False:
                    okr = True
            if okr:
                ctx.ok(R, "'/' after every rank except the first", where(s.body, c['line']))
            else:
                ctx.violation(R, DISP + ':slash', "the '/' separator is not guarded by `rank != First`", where(s.body, c['line']))


def r4(ctx):
    R = 'C06.R4'
    s = summary(ctx, FROMB, R)
    if s is not None:
        w = where(s.body)
        r = norm(s.ret)
        CR = lambda c: call('board::Board::castle_rights', ('param', 1), c)
        m = match(call('board_builder::BoardBuilder::setup', V('pieces'), call('board::Board::side_to_move', ('param', 1)),
                       CR(W), CR(B), call('core::option::Option::<T>::map', call('board::Board::en_passant', SELF), ('closure', V('k'), ()))), r)
        if m is None:
            ctx.violation(R, FROMB + ':components', 'Board -> builder does not pass (side to move, White rights, Black rights, en-passant file) '
                          'in that order: ' + sh(r, 400), w)
        else:
            cs = ctx.an().summary(m['k'])
            if cs is not None and norm(cs.ret) == call('square::Square::get_file', ('param', 2), gargs=()) or \
                    (cs is not None and match(call('square::Square::get_file', ('param', 2)), norm(cs.ret)) is not None):
                ctx.ok(R, 'Board -> builder: side, rights of White/Black into their own slots, file of en_passant()', w)
            else:
                ctx.violation(R, FROMB + ':ep-file', 'the en-passant component is not the file of the stored square', w)
        loops = for_loops(s)
        okp = False
        for l_ in loops:
            require_no_break(ctx, R, s, l_, FROMB, 'the squares', 'the pieces on the remaining squares are not copied')
        if not loops:
            ctx.inconclusive(R, 'Board -> builder: the squares are not visited by a `for` loop (iterator-adaptor form is not analysed)')
            okp = None
        if len(loops) == 1 and 'ALL_SQUARES' in sh(loops[0]['source'], 200):
            SQ = ('mem', ('h', norm(loops[0]['elem'])))
            for c in s.calls:
                if c['callee'] == 'alloc::vec::Vec::<T, A>::push':
                    v = norm(c['argvals'][1])
                    po = call('board::Board::piece_on', ('param', 1), SQ)
                    co = call('core::option::Option::<T>::unwrap', call('board::Board::color_on', ('param', 1), SQ))
                    want = ('tuple', (SQ, ('field', ('variant', po, 'Some'), '0'), co))
                    gs = [g for g in guards(s, c['blk'], transitive=False) if g['cond'] is not None]
                    if match(want, v) is not None and any(match(('discr', po), norm(g['cond'])) is not None and g['vals'] == [1] for g in gs):
                        okp = True
        if okp:
            ctx.ok(R, 'Board -> builder: every square of ALL_SQUARES with piece_on == Some contributes (sq, piece_on, color_on)', w)
        elif okp is None:
            pass
        else:
            ctx.violation(R, FROMB + ':pieces', 'the piece list is not built from piece_on / color_on over ALL_SQUARES', w)
    # setup(): slots
    s = summary(ctx, 'board_builder::BoardBuilder::setup', R)
    if s is not None:
        r = norm(s.ret)
        base, fs = __import__('sa.expr', fromlist=['peel_upd']).peel_upd(r)
        m = match(('agg', 'board_builder::BoardBuilder', 'BoardBuilder', V('f')), base)
        ok = False
        if m is not None:
            d = dict(m['f'])
            ok = d.get('side_to_move') == ('param', 2) and d.get('castle_rights') == ('array', (('param', 3), ('param', 4))) and \
                d.get('en_passant') == ('param', 5)
        widx = ctx.facts().enum_discr(COLOR, 'White')
        if ok and widx == 0:
            ctx.ok(R, 'setup(): side, [White rights, Black rights] at indices [White, Black], en-passant file stored as given', where(s.body))
        else:
            ctx.violation(R, 'board_builder::BoardBuilder::setup', 'setup() does not store its arguments into the matching fields: ' + sh(r, 300), where(s.body))
        okst = False
        for st in s.stores:
            if st.get('local') and st['target'][2] and st['target'][2][0] == ('f', 'pieces'):
                pass
        for st in s.stores:
            t = st['target']
            if t[2] and t[2][0] == ('f', 'pieces') and len(t[2]) == 2:
                idx = norm(t[2][1][1])
                v = norm(st['value'])
                mm = match(('agg', 'core::option::Option', 'Some', (('0', ('tuple', (('field', V('e'), '1'), ('field', V('e'), '2')))),)), v)
                if mm is not None and match(call('square::Square::to_index', ('field', mm['e'], '0')), idx) is not None:
                    okst = True
        if okst:
            ctx.ok(R, 'setup(): pieces[sq.to_index()] = Some((piece, colour)) for each listed triple', where(s.body))
        else:
            ctx.violation(R, 'board_builder::BoardBuilder::setup:pieces', 'setup() does not place each (sq, piece, colour) at index sq', where(s.body))
    # builder -> board
    s = summary(ctx, TRYF, R)
    if s is not None:
        w = where(s.body)
        loops = for_loops(s)
        okx = False
        for l_ in loops:
            require_no_break(ctx, R, s, l_, TRYF, 'the squares', 'the pieces on the remaining squares are not placed')
        sqloops = [l_ for l_ in loops if 'ALL_SQUARES' in sh(l_['source'], 200)]
        if len(sqloops) == 1:
            loops = sqloops
        if len(loops) == 1 and 'ALL_SQUARES' in sh(loops[0]['source'], 200):
            SQ = ('mem', ('h', norm(loops[0]['elem'])))
            slot = call('<board_builder::BoardBuilder as core::ops::index::Index<square::Square>>::index', ('param', 1), SQ)
            for c in s.calls:
                if c['callee'] == 'board::Board::xor':
                    a = [norm(x) for x in c['argvals']]
                    pay = ('field', ('variant', V('slot'), 'Some'), '0')
                    m1 = match(('field', pay, '0'), a[1])
                    m3 = match(('field', pay, '1'), a[3])
                    if m1 is not None and m3 is not None and m1['slot'] == m3['slot'] and match(call('bitboard::BitBoard::from_square', SQ), a[2]) is not None:
                        sl = m1['slot']
                        if sl[0] == 'mem':
                            sl = sl[1][1]
                        if match(slot, sl) is not None:
                            okx = True
        if okx:
            ctx.ok(R, 'builder -> Board: for every square, Some((piece, colour)) toggles (piece, that square, colour)', w)
        else:
            ctx.violation(R, TRYF + ':pieces', 'placement is not copied as xor(piece, from_square(sq), colour) from fen[sq]', w)
        adds = s.calls_to('board::Board::add_castle_rights')
        pairs = sorted((sh(c['argvals'][1], 40), sh(c['argvals'][2], 120)) for c in adds)
        want = sorted([('Color::White', 'board_builder::BoardBuilder::get_castle_rights(arg1, Color::White)'),
                       ('Color::Black', 'board_builder::BoardBuilder::get_castle_rights(arg1, Color::Black)')])
        colour_loop = [l_ for l_ in for_loops(s) if 'ALL_COLORS' in sh(l_['source'], 200)]
        per_colour = False
        if len(adds) == 1 and len(colour_loop) == 1 and adds[0]['blk'] in colour_loop[0]['blocks'] and not break_exits(s, colour_loop[0]):
            c_ = norm(adds[0]['argvals'][1])
            if match(call('board_builder::BoardBuilder::get_castle_rights', ('param', 1), c_), norm(adds[0]['argvals'][2])) is not None and \
                    c_ in (norm(colour_loop[0]['elem']), ('mem', ('h', norm(colour_loop[0]['elem'])))) and \
                    not [g for g in guards(s, adds[0]['blk'], transitive=False) if g['cond'] is not None and g['blk'] in colour_loop[0]['blocks']
                         and g['blk'] not in ctrl_blocks(s, colour_loop[0])]:
                per_colour = True
        if pairs == want or per_colour:
            ctx.ok(R, 'builder -> Board: rights of White/Black added to the same colour', w)
        else:
            ctx.violation(R, TRYF + ':rights', 'castling rights are copied as %s' % pairs, w)
        gcr = ctx.an().summary('board_builder::BoardBuilder::get_castle_rights')
        if gcr is not None:
            v = norm(inliner(ctx).inline(gcr.ret))
            if match(('index', ('field', SELF, 'castle_rights'), ('cast', ('discr', ('param', 2)), 'usize')), v) is not None:
                ctx.ok(R, 'get_castle_rights(c) = castle_rights[c]', where(gcr.body))
            else:
                ctx.violation(R, 'board_builder::BoardBuilder::get_castle_rights', 'returns ' + sh(v, 200), where(gcr.body))
        # side to move, and en passant routed through set_ep for the side that just moved
        st_stores = [st for st in s.stores if st['target'][2] and st['target'][2][-1] == ('f', 'side_to_move')]
        vals = [sh(st['value'], 200) for st in st_stores]
        GS = 'board_builder::BoardBuilder::get_side_to_move(arg1)'
        n = NOT
        want_vals = [GS, '%s(%s)' % (n, GS), '%s(%s(%s))' % (n, n, GS)]
        seps = s.calls_to('board::Board::set_ep')
        ok_ep = False
        if len(seps) == 1:
            c = seps[0]
            arg = norm(c['argvals'][1])
            gep = call('board_builder::BoardBuilder::get_en_passant', ('param', 1))
            gs = [g for g in guards(s, c['blk'], transitive=False) if g['cond'] is not None]
            obj_side = sh(__import__('sa.expr', fromlist=['mk_field']).mk_field(c['argvals'][0], 'side_to_move', ctx.an()), 200)
            if match(('field', ('variant', gep, 'Some'), '0'), arg) is not None and \
                    any(match(('discr', gep), norm(g['cond'])) is not None and g['vals'] == [1] for g in gs) and \
                    obj_side == '%s(%s)' % (n, GS):
                ok_ep = True
        if vals == want_vals and ok_ep:
            ctx.ok(R, 'builder -> Board: side to move copied; en passant set through set_ep with the side flipped to the mover, then restored', w)
        else:
            ctx.violation(R, TRYF + ':side-ep', 'side to move stores %s; set_ep routed correctly: %s' % (vals, ok_ep), w)


def r7(ctx):
    """R7 ACCEPTS-ITS-OWN-OUTPUT (= C07.R2): text -> Board ends in is_sane(); "parsing that text gives back the position" needs
    is_sane to reject nothing but the required conjuncts (an extra, wrong rejection turns the library's own FEN into an error)."""
    from . import c07
    from ..bb import bb
    bb(('unit',), ctx.an())
    sub = Sub(ctx, {'C07.R2': 'C06.R7'})
    c07.r2(sub)


def run(ctx):
    r1_r5(ctx)
    r2(ctx)
    r3(ctx)
    r4(ctx)
    r7(ctx)
    # R8 CACHES-AGREE (= C03.R2/R3): "parsing gives back a position EQUAL to the original" compares checkers and pinned too:
    # the from-scratch routine the parser ends with and the incremental copies in make_move* must compute the same sets
    from . import c03
    sub = Sub(ctx, {'C03.R2': 'C06.R8', 'C03.R3': 'C06.R8'})
    rec = c03.r2(sub)
    c03.r3(sub, rec)
