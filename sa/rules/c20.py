"""C20 — BitBoard behaves as a set of squares.

R1 OPERATOR-SIBLINGS: every operator impl applies the primitive operator matching its trait to
   field 0 of both operands and nothing else (24 impls).
R2 INTRINSICS: from_square = 1 << sq; to_square = Square::new(trailing_zeros); popcnt = count_ones;
   reverse_colors = swap_bytes; set(r, f) = from_square(make_square(r, f)); EMPTY = 0; Square::new
   masks with 63.
R3 ITERATOR: next returns None iff the word is zero, else the lowest square, and clears exactly
   that bit.
R4 ITERATOR-OVERRIDES: `count`, `last`, `for_each`, collecting .. are std's defaults over next(); a method of
   BitBoard's Iterator impl other than next replaces one of them: each such override is put through the panic
   audit (no shift / arithmetic overflow, no slice panic for any word) and reported as not compared with next().
Given u64 semantics these decide the set laws for every value."""
from .common import *

LEVEL = 'proof'
EXHAUSTIVE = True
EXPLANATION = ('Static rule set over the type-checked MIR of src/bitboard.rs: each of the 24 operator impls, the five '
               'intrinsic wrappers and the iterator are reduced (use-def chasing + inlining of accessor functions) to '
               'an expression over the primitive u64 operators and compared with the required shape.')
NOT_DECIDED = 'nothing: given u64 operator semantics the shapes decide the laws for all 2^64 values'

TRAITS = {
    'core::ops::bit::BitAnd': ('bitand', 'BitAnd', 'bin'),
    'core::ops::bit::BitOr': ('bitor', 'BitOr', 'bin'),
    'core::ops::bit::BitXor': ('bitxor', 'BitXor', 'bin'),
    'core::ops::bit::BitAndAssign': ('bitand_assign', 'BitAnd', 'assign'),
    'core::ops::bit::BitOrAssign': ('bitor_assign', 'BitOr', 'assign'),
    'core::ops::bit::BitXorAssign': ('bitxor_assign', 'BitXor', 'assign'),
    'core::ops::bit::Not': ('not', 'Not', 'un'),
    'core::ops::arith::Mul': ('mul', 'wrapping_mul', 'mul'),
}


def operand_word(n):
    """field 0 of operand n, owned or borrowed"""
    return [('field', ('param', n), '0'), ('field', ('mem', ('p', n)), '0')]


def r1(ctx):
    R = 'C20.R1'
    f = ctx.facts()
    an = ctx.an()
    n = 0
    for imp in f.impls:
        td = imp.get('trait_def')
        if td not in TRAITS or imp['self_ty'] not in ('bitboard::BitBoard', '&bitboard::BitBoard'):
            continue
        meth, op, kind = TRAITS[td]
        for key in imp['items']:
            if not key.endswith('::' + meth):
                continue
            n += 1
            s = an.summary(key)
            body = f.body(key)
            if s is None:
                ctx.inconclusive(R, 'no body for ' + key)
                continue
            w = where(body)
            A, B = operand_word(1), operand_word(2)
            good = False
            # an impl may delegate to a sibling impl (`&a & &b` = `*a & *b`): the sibling is inlined (it is checked itself)
            forms = [norm(s.ret)]
            try:
                forms.append(ninl(ctx, s.ret))
            except Exception:
                pass
            if kind == 'bin':
                good = any(match(BB(('bin', op, a, b)), r) is not None for r in forms for a in A for b in B)
                got = sh(forms[0])
            elif kind == 'un':
                good = any(match(BB(('un', 'Not', a)), r) is not None for r in forms for a in A)
                got = sh(forms[0])
            elif kind == 'mul':
                good = any(match(BB(call('core::num::<impl u64>::wrapping_mul', a, b)), r) is not None or
                           match(BB(call('core::num::<impl u64>::wrapping_mul', b, a)), r) is not None
                           for r in forms for a in A for b in B)
                got = sh(forms[0])
            else:
                fin = norm(s.final.get(('p', 1), ('unk', 'no write')))
                base = ('mem', ('p', 1))
                good = any(match(('upd', base, '0', ('bin', op, ('field', base, '0'), b)), fin) is not None for b in B)
                got = sh(fin)
                # nothing else may be written
                extra = [st for st in s.stores if not st.get('local') and st['target'][1] != ('p', 1)]
                if extra:
                    good = False
            if good:
                ctx.ok(R, '%s == %s on field 0 of both operands' % (key, op), w)
            else:
                ctx.violation(R, key, 'operator impl does not compute %s of the two words: got %s' % (op, got), w)
    ctx.floor(R, 'BitBoard operator impls', n, 24)


def r2(ctx):
    R = 'C20.R2'
    f = ctx.facts()
    an = ctx.an()
    il = inliner(ctx)
    sq_word = [('field', ('param', 1), '0'), ('field', ('mem', ('p', 1)), '0')]
    u8 = lambda x: ('cast', x, 'u8')
    checks = [
        ('bitboard::BitBoard::from_square',
         [BB(('bin', 'Shl', INT(1, 'u64'), w)) for w in sq_word], 'BitBoard(1 << sq)'),
        ('bitboard::BitBoard::to_square',
         [SQ(('bin', 'BitAnd', u8(call('core::num::<impl u64>::trailing_zeros', w)), INT(63, 'u8'))) for w in sq_word],
         'Square::new(trailing_zeros)'),
        ('bitboard::BitBoard::popcnt',
         [call('core::num::<impl u64>::count_ones', w) for w in sq_word], 'count_ones'),
        ('bitboard::BitBoard::reverse_colors',
         [BB(call('core::num::<impl u64>::swap_bytes', w)) for w in sq_word], 'BitBoard(swap_bytes)'),
        ('square::Square::new',
         [SQ(('bin', 'BitAnd', ('param', 1), INT(63, 'u8')))], 'Square(sq & 63)'),
        ('bitboard::BitBoard::new', [BB(('param', 1))], 'BitBoard(b)'),
    ]
    for key, pats, desc in checks:
        s = summary(ctx, key, R)
        if s is None:
            continue
        r = ninl(ctx, s.ret)
        if any(match(p, r) is not None for p in pats):
            ctx.ok(R, '%s = %s' % (key, desc), where(s.body))
        else:
            ctx.violation(R, key, 'expected %s, got %s' % (desc, sh(r)), where(s.body))
    # set(rank, file) = from_square(make_square(rank, file))
    s = summary(ctx, 'bitboard::BitBoard::set', R)
    if s is not None:
        r = norm(s.ret)
        want = call('bitboard::BitBoard::from_square', call('square::Square::make_square', ('param', 1), ('param', 2)))
        if match(want, r) is not None:
            ctx.ok(R, 'BitBoard::set = from_square(make_square(rank, file))', where(s.body))
        else:
            # accept any spelling with the same inlined value
            want_i = ninl(ctx, ('call', 'bitboard::BitBoard::from_square',
                                (('call', 'square::Square::make_square', (('param', 1), ('param', 2)), (), 0),), (), 0))
            if ninl(ctx, s.ret) == want_i:
                ctx.ok(R, 'BitBoard::set == from_square(make_square(rank, file)) after inlining', where(s.body))
            else:
                ctx.violation(R, 'bitboard::BitBoard::set', 'expected from_square(make_square(rank, file)), got ' + sh(r),
                              where(s.body))
    # EMPTY = 0
    c = f.consts.get('bitboard::EMPTY')
    if c is None:
        ctx.inconclusive(R, 'constant bitboard::EMPTY not found')
    elif int(c.get('int', -1)) == 0:
        ctx.ok(R, 'EMPTY = BitBoard(0)', '%s:%s' % (c['file'], c['line']))
    else:
        ctx.violation(R, 'bitboard::EMPTY', 'EMPTY is %s, not 0' % c.get('int'), '%s:%s' % (c['file'], c['line']))
    # make_square = rank << 3 | file (xor/or/add of disjoint bit fields)
    s = summary(ctx, 'square::Square::make_square', R)
    if s is not None:
        r = ninl(ctx, s.ret)
        rk = u8(('cast', ('discr', ('param', 1)), 'usize'))
        fl = u8(('cast', ('discr', ('param', 2)), 'usize'))
        ok = any(match(SQ(('bin', op, ('bin', 'Shl', rk, ANY), fl)), r) is not None for op in ('BitXor', 'BitOr', 'Add'))
        sh3 = [x for x in walk(r) if x[0] == 'bin' and x[1] == 'Shl' and x[3][0] == 'int' and x[3][1] == 3]
        if ok and sh3:
            ctx.ok(R, 'make_square = rank << 3 | file', where(s.body))
        else:
            ctx.violation(R, 'square::Square::make_square', 'expected (rank << 3) ^ file, got ' + sh(r), where(s.body))


def r3(ctx):
    R = 'C20.R3'
    key = '<bitboard::BitBoard as core::iter::traits::iterator::Iterator>::next'
    s = summary(ctx, key, R)
    if s is None:
        return
    w = where(s.body)
    word = ('field', ('mem', ('p', 1)), '0')
    lowest = ('bin', 'BitAnd', ('cast', call('core::num::<impl u64>::trailing_zeros', word), 'u8'), INT(63, 'u8'))
    r = ninl(ctx, s.ret)
    fin = ninl(ctx, s.final.get(('p', 1), ('mem', ('p', 1))))
    none = ('agg', 'core::option::Option', 'None', ())
    some = ('agg', 'core::option::Option', 'Some', (('0', SQ(lowest)),))
    cond = ('bin', 'Eq', word, INT(0, 'u64'))
    verdict, why = decide_equal(ctx, [('ite', cond, ((0, some), ('otherwise', none)))], r)
    if verdict == 'ok':
        ctx.ok(R, 'next() is None iff the word is 0, else Some(lowest set bit)', w)
    elif verdict == 'violation':
        ctx.violation(R, key + ':ret', 'expected `if w == 0 {None} else {Some(lowest)}`, got %s (%s)' % (sh(r), why), w)
    else:
        ctx.inconclusive(R, 'next(): return value not recognised (%s): %s' % (why, sh(r)))
    base = ('mem', ('p', 1))
    cleared = [('upd', base, '0', ('bin', 'BitXor', word, ('bin', 'Shl', INT(1, 'u64'), lowest))),
               ('upd', base, '0', ('bin', 'BitAnd', word, ('bin', 'Sub', word, INT(1, 'u64')))),
               ('upd', base, '0', ('bin', 'BitAnd', word, ('un', 'Not', ('bin', 'Shl', INT(1, 'u64'), lowest))))]
    verdict, why = decide_equal(ctx, [('ite', cond, ((0, c), ('otherwise', base))) for c in cleared], fin)
    if verdict == 'ok':
        ctx.ok(R, 'next() clears exactly the bit it returned', w)
    elif verdict == 'violation':
        ctx.violation(R, key + ':state', 'expected the returned bit (and only it) to be cleared, got %s (%s)' % (sh(fin), why), w)
    else:
        ctx.inconclusive(R, 'next(): state update not recognised (%s): %s' % (why, sh(fin)))


def r4(ctx):
    R = 'C20.R4'
    from . import panics
    f = ctx.facts()
    pre = '<bitboard::BitBoard as core::iter::traits::'
    impl = sorted(k for k in f.bodies if k.startswith(pre) and '::{' not in k)
    extra = [k for k in impl if not k.endswith('Iterator>::next')]
    if not impl:
        ctx.inconclusive(R, 'no Iterator impl of BitBoard found')
        return
    if not extra:
        ctx.ok(R, 'BitBoard overrides no Iterator method besides next(): count / last / for_each / collect are std defaults over next()',
               where(f.bodies[impl[0]]))
        return
    panics.audit(ctx, R, extra)
    for k in extra:
        ctx.inconclusive(R, '%s is overridden: that it visits the same squares as next() is not analysed (only that it cannot panic)' % k)


def run(ctx):
    r1(ctx)
    r2(ctx)
    r3(ctx)
    r4(ctx)
