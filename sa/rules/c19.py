"""C19 — CacheTable returns only what was stored under exactly that hash.

R1 CONSTRUCTOR: `new` panics iff count_ones(size) != 1; the same `size` feeds the allocation length
   and mask = size - 1; slots start as (hash 0, default); table/mask are private and written nowhere else.
R2 INDEX: every access to the table is at (hash as usize) & self.mask.
R3 GET: Some(slot.entry) iff slot.hash == hash, else None.
R4 ADD: unconditional store of (hash, entry) into the slot.
R5 REPLACE-IF: the same store, control-dependent exactly on the predicate applied to the slot's
   current entry."""
from .common import *

LEVEL = 'proof'
EXHAUSTIVE = True
EXPLANATION = ('Static rule set over the generic MIR of src/cache_table.rs (all instantiations at once): constructor '
               'guard and mask/length agreement, index expression of every table access, decision table of get, '
               'store effects of add and replace_if, field privacy and writer inventory.')
NOT_DECIDED = 'nothing; the statement is covered clause by clause (allocation failure ignored)'

CT = 'cache_table::CacheTable'
ENTRY = 'cache_table::CacheTableEntry'
NEW = 'cache_table::CacheTable::<T>::new'
GET = 'cache_table::CacheTable::<T>::get'
ADD = 'cache_table::CacheTable::<T>::add'
REPL = 'cache_table::CacheTable::<T>::replace_if'

SELF = ('mem', ('p', 1))
IDX = ('bin', 'BitAnd', ('cast', ('param', 2), 'usize'), ('field', SELF, 'mask'))


def is_table(e):
    """expression denotes the slice owned by self.table"""
    return any(x == ('field', SELF, 'table') for x in walk(e))


def table_indexes(e):
    out = []
    for x in walk(e):
        if x[0] in ('index',) and is_table(x[1]):
            out.append(x[2])
        if x[0] == 'updidx' and is_table(x[1]):
            out.append(x[2])
    return out


def r1(ctx):
    R = 'C19.R1'
    s = summary(ctx, NEW, R)
    if s is None:
        return
    w = where(s.body)
    size = ('param', 1)
    # guard: every return is reached only when size has exactly one bit set; the other edge panics
    pan = panic_calls(s)
    rets = s.body.return_blocks()
    accepted = [
        (('bin', 'Ne', call('core::num::<impl usize>::count_ones', size), INT(1, 'u32')), False),
        (('bin', 'Eq', call('core::num::<impl usize>::count_ones', size), INT(1, 'u32')), True),
        (call('core::num::<impl usize>::is_power_of_two', size), True),
    ]
    if not pan:
        ctx.violation(R, NEW + ':guard', 'constructor has no panicking path: invalid sizes are accepted', w)
    for rb in rets:
        gs = guards(s, rb)
        ok = len(gs) == 1 and any(match(p, norm(gs[0]['cond'])) is not None and truth(gs[0]) == t for p, t in accepted)
        if ok:
            ctx.ok(R, 'new() returns only if count_ones(size) == 1 (guard at line %d)' % gs[0]['line'], w)
        else:
            ctx.violation(R, NEW + ':guard', 'return is not guarded exactly by "size is a power of two": guards = %s' %
                          [(sh(g['cond']), g['vals']) for g in gs], w)
    for c in pan:
        gs = guards(s, c['blk'])
        ok = len(gs) == 1 and any(match(p, norm(gs[0]['cond'])) is not None and truth(gs[0]) == (not t)
                                  for p, t in accepted)
        if ok:
            ctx.ok(R, 'panic exactly when size is not a power of two', where(s.body, c['line']))
        else:
            ctx.violation(R, NEW + ':panic', 'panic not controlled exactly by the power-of-two test', where(s.body, c['line']))
    # value: table = vec![Entry{hash:0, entry: default}; size], mask = size - 1
    r = norm(s.ret)
    m = match(('agg', CT, 'CacheTable', (('table', V('t')), ('mask', V('m')))), r)
    if m is None:
        ctx.inconclusive(R, 'constructor result is not a CacheTable literal: ' + sh(r))
        return
    if m['m'] == ('bin', 'Sub', size, INT(1)):
        ctx.ok(R, 'mask = size - 1', w)
    else:
        ctx.violation(R, NEW + ':mask', 'mask is %s, expected size - 1' % sh(m['m']), w)
    elems = [x for x in walk(m['t']) if x[0] == 'call' and x[1] == 'alloc::vec::from_elem']
    if not elems:
        ctx.inconclusive(R, 'allocation idiom not recognised: ' + sh(m['t']))
    else:
        e = elems[0]
        if e[2][1] == size:
            ctx.ok(R, 'allocation length = size', w)
        else:
            ctx.violation(R, NEW + ':len', 'allocation length is %s, expected size' % sh(e[2][1]), w)
        want = ('agg', ENTRY, 'CacheTableEntry', (('hash', INT(0, 'u64')), ('entry', ('param', 2))))
        if e[2][0] == want:
            ctx.ok(R, 'slots start as (hash 0, default)', w)
        else:
            ctx.violation(R, NEW + ':init', 'initial slot is %s, expected (0, default)' % sh(e[2][0]), w)
    # privacy and writers
    adt = ctx.facts().adts.get(CT)
    if adt is None:
        ctx.inconclusive(R, 'ADT not found: ' + CT)
        return
    for fl in adt['variants'][0]['fields']:
        if fl['pub']:
            ctx.violation(R, CT + '.' + fl['name'] + ':pub', 'field %s is public: users can break mask/length agreement' % fl['name'],
                          '%s:%s' % (adt['file'], adt['lo']))
        else:
            ctx.ok(R, 'field %s is private' % fl['name'], '%s:%s' % (adt['file'], adt['lo']))
    eff = ctx.eff()
    for fld in ('mask',):
        ws = [k for k in eff.field_writers(CT, fld)]
        if ws:
            ctx.violation(R, CT + '.' + fld + ':writers', 'field %s is written outside the constructor by %s' % (fld, ws), w)
        else:
            ctx.ok(R, 'no function writes %s after construction' % fld, w)
    # `table` may be borrowed mutably for slot stores, but never replaced: no direct assignment
    for key, body in ctx.facts().bodies.items():
        for bi in body.reachable():
            for st in body.blocks[bi]['stmts']:
                if st['k'] != 'assign':
                    continue
                pl = st['pl']
                fs = [e for e in pl['p'] if isinstance(e, dict) and e.get('adt') == CT]
                if fs and isinstance(pl['p'][-1], dict) and pl['p'][-1].get('adt') == CT:
                    ctx.violation(R, '%s:assign:%s' % (key, pl['p'][-1]['n']),
                                  'direct assignment to CacheTable.%s outside the constructor' % pl['p'][-1]['n'],
                                  where(body, st['line']))
                rv = st['rv']
                if rv['rv'] == 'agg' and rv.get('adt') == CT and key != NEW:
                    ctx.violation(R, key + ':literal', 'CacheTable literal constructed outside new()', where(body, st['line']))
    ctx.ok(R, 'CacheTable literals and field assignments occur only in new()', w)


def r2(ctx):
    R = 'C19.R2'
    n = 0
    for key in (GET, ADD, REPL):
        s = summary(ctx, key, R)
        if s is None:
            continue
        exprs = [s.ret] + [v for r, v in s.final.items() if r[0] in ('p', 'h')] + [c['result'] for c in s.calls] + \
                [st['value'] for st in s.stores] + [('ref',) + st['target'][1:] for st in s.stores]
        idxs = set()
        for e in exprs:
            e = norm(e)
            for i in table_indexes(e):
                idxs.add(i)
            # stores through a pointer into the table
            if e and e[0] == 'ref':
                for el in e[2] if len(e) > 2 else ():
                    if el[0] == 'i':
                        idxs.add(norm(el[1]))
        for st in s.stores:
            t = st['target']
            if t[1][0] == 'h' and is_table(t[1][1]):
                for el in t[2]:
                    if el[0] == 'i':
                        idxs.add(norm(el[1]))
        if not idxs:
            ctx.inconclusive(R, 'no table access recognised in ' + key)
            continue
        for i in idxs:
            n += 1
            if i != IDX:
                try:
                    i2 = ninl(ctx, i)          # the index may come from a private helper (`fn slot(&self, h) -> usize`)
                    if i2 == IDX:
                        i = i2
                except Exception:
                    pass
            if i == IDX:
                ctx.ok(R, '%s indexes the table with (hash as usize) & self.mask' % key, where(s.body))
            else:
                ctx.violation(R, key + ':index', 'table index is %s, expected (hash as usize) & self.mask' % sh(i), where(s.body))
    ctx.floor(R, 'table index expressions', n, 3)


def slot():
    return ANY


def r3(ctx):
    R = 'C19.R3'
    s = summary(ctx, GET, R)
    if s is None:
        return
    r = norm(s.ret)
    none = ('agg', 'core::option::Option', 'None', ())
    pat = ('ite', ('bin', 'Eq', ('field', V('slot'), 'hash'), ('param', 2)),
           ((0, none), ('otherwise', ('agg', 'core::option::Option', 'Some', (('0', ('field', V('slot'), 'entry')),)))))
    m = match(pat, r)
    if m is None:
        try:
            r2 = ninl(ctx, s.ret)         # private helpers (index computation) inlined
            m = match(pat, r2)
            if m is not None:
                r = r2
        except Exception:
            pass
    verdict = None
    if m is None:
        # spelled differently (negated test with early return ..): find the slot it reads and compare as a decision tree
        slots = [x for x in walk(r) if isinstance(x, tuple) and x and x[0] == 'index' and is_table(x[1])]
        if slots:
            sl = slots[0]
            concrete = ('ite', ('bin', 'Eq', ('field', sl, 'hash'), ('param', 2)),
                        ((0, none), ('otherwise', ('agg', 'core::option::Option', 'Some', (('0', ('field', sl, 'entry')),)))))
            verdict, why = decide_equal(ctx, [concrete], r)
            if verdict == 'ok':
                m = {'slot': sl}
    if m is not None and m['slot'][0] == 'index' and is_table(m['slot'][1]):
        ctx.ok(R, 'get = if slot.hash == hash {Some(slot.entry)} else {None}', where(s.body))
    elif verdict == 'inconclusive':
        ctx.inconclusive(R, 'get(): value not recognised (%s): %s' % (why, sh(r, 300)))
    else:
        ctx.violation(R, GET, 'expected Some(slot.entry) iff slot.hash == hash, got ' + sh(r, 500), where(s.body))
    # no writes
    if any(not st.get('local') for st in s.stores):
        ctx.violation(R, GET + ':writes', 'get() writes memory', where(s.body))
    else:
        ctx.ok(R, 'get writes nothing', where(s.body))


def heap_final(s, ctx=None):
    out = []
    for r, v in s.final.items():
        if r[0] == 'h' and is_table(r[1]):
            nv = norm(v)
            if ctx is not None and any(isinstance(x, tuple) and x and x[0] == 'call' and x[1].startswith('cache_table::') for x in walk(nv)):
                try:
                    nv = ninl(ctx, v)      # a private helper of the table (e.g. the index computation) inlined
                except Exception:
                    pass
            out.append((('mem', r), nv))
    return out


def r4(ctx):
    R = 'C19.R4'
    s = summary(ctx, ADD, R)
    if s is None:
        return
    new = ('agg', ENTRY, 'CacheTableEntry', (('hash', ('param', 2)), ('entry', ('param', 3))))
    fin = heap_final(s, ctx)
    ok = len(fin) == 1 and match(('updidx', norm(fin[0][0]), IDX, new), fin[0][1]) is not None
    if ok:
        ctx.ok(R, 'add stores (hash, entry) into the slot unconditionally', where(s.body))
    else:
        ctx.violation(R, ADD, 'expected unconditional store of (hash, entry); table after call = %s' %
                      [sh(v, 400) for _, v in fin], where(s.body))


def r5(ctx):
    R = 'C19.R5'
    s = summary(ctx, REPL, R)
    if s is None:
        return
    new = ('agg', ENTRY, 'CacheTableEntry', (('hash', ('param', 2)), ('entry', ('param', 3))))
    fin = heap_final(s, ctx)
    if len(fin) != 1:
        ctx.violation(R, REPL, 'expected one conditional store into the table; got %d table states' % len(fin), where(s.body))
        return
    base, v = norm(fin[0][0]), fin[0][1]
    cur = ('field', ('index', base, IDX), 'entry')
    pred = call('core::ops::function::Fn::call', ('param', 4), ('tuple', (cur,)))
    pat = ('ite', pred, ((0, base), ('otherwise', ('updidx', base, IDX, new))))
    if match(pat, v) is not None:
        ctx.ok(R, 'replace_if stores (hash, entry) iff predicate(current entry)', where(s.body))
    else:
        ctx.violation(R, REPL, 'expected `if replace(slot.entry) { slot = (hash, entry) }`, got ' + sh(v, 600), where(s.body))


def run(ctx):
    r1(ctx)
    r2(ctx)
    r3(ctx)
    r4(ctx)
    r5(ctx)
