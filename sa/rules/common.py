"""Helpers shared by the rule modules: pattern matching on origin expressions, anchors, idioms."""
from ..expr import norm, show, walk, paths_of, is_unk
from ..inline import Inliner

COMMUTATIVE = {'BitAnd', 'BitOr', 'BitXor', 'Eq', 'Ne', 'Add', 'Mul'}


def V(name):
    return ('?', name)


ANY = ('?any',)


def match(p, e, b=None):
    """structural match of pattern p against expression e; ('?', name) binds, ('?any',) matches all.
    Binary operators in COMMUTATIVE match in either operand order. Returns bindings dict or None."""
    if b is None:
        b = {}
    if isinstance(p, tuple) and p:
        if p[0] == '?':
            if p[1] in b:
                return b if b[p[1]] == e else None
            nb = dict(b)
            nb[p[1]] = e
            return nb
        if p[0] == '?any':
            return b
        if not isinstance(e, tuple) or len(e) != len(p):
            return None
        if p[0] == 'bin' and e[0] == 'bin' and p[1] == e[1] and p[1] in COMMUTATIVE:
            r = match(p[2], e[2], b)
            if r is not None:
                r = match(p[3], e[3], r)
            if r is not None:
                return r
            r = match(p[2], e[3], b)
            if r is not None:
                r = match(p[3], e[2], r)
            return r
        for x, y in zip(p, e):
            b = match(x, y, b)
            if b is None:
                return None
        return b
    if isinstance(p, tuple):
        return b if p == e else None
    return b if p == e else None


def sh(e, n=300):
    s = show(norm(e))
    return s if len(s) <= n else s[:n] + '...'


def BB(e):
    """BitBoard(e) aggregate"""
    return ('agg', 'bitboard::BitBoard', 'BitBoard', (('0', e),))


def SQ(e):
    return ('agg', 'square::Square', 'Square', (('0', e),))


def INT(v, ty='usize'):
    return ('int', v, ty)


def ENUM(adt, v):
    return ('enum', adt, v)


def call(callee, *args, gargs=ANY):
    return ('call', callee, tuple(args), gargs)


def where(body, line=None):
    return body.where(line)


def ninl(ctx, e, config='default'):
    """normalised + inlined + folded form used for comparisons"""
    il = inliner(ctx, config)
    return norm(il.inline(e))


_INL = {}


def inliner(ctx, config='default'):
    k = (id(ctx), config)
    if k not in _INL:
        _INL[k] = Inliner(ctx.an(config))
    return _INL[k]


def summary(ctx, key, rule, config='default'):
    s = ctx.an(config).summary(key)
    if s is None:
        ctx.inconclusive(rule, 'anchor not found: ' + key)
    return s


def find_fn(ctx, candidates, rule, config='default'):
    for k in candidates:
        if k in ctx.facts(config).bodies:
            return k
    ctx.inconclusive(rule, 'anchor not found: ' + ' | '.join(candidates))
    return None


def bool_paths(e):
    """paths of an ite tree with each condition rendered as (cond, truth) where possible"""
    return paths_of(e)


def cond_true(val, cases):
    """for a 2-way switch on a bool-like condition: was the 'true' (non-zero) edge taken?"""
    if val == 'otherwise':
        return 0 in cases
    if val == 0:
        return False
    return True


def switch_vals(body, a, s):
    """switch values of block a that lead to successor s"""
    t = body.blocks[a]['term']
    if t['k'] != 'switch':
        return None
    vals = [v for v, b in t['targets'] if b == s]
    if t['otherwise'] == s:
        vals.append('otherwise')
    return vals


def guards(s, blk, transitive=True):
    """conditions controlling execution of block blk: list of dict(blk, cond, vals, all)"""
    cfg = s.cfg
    deps = cfg.control_deps_transitive(blk) if transitive else cfg.control_deps()[blk]
    out = []
    for (a, succ) in sorted(deps):
        t = s.body.blocks[a]['term']
        if t['k'] != 'switch':
            continue
        vals = switch_vals(s.body, a, succ)
        allv = [v for v, _ in t['targets']] + ['otherwise']
        out.append(dict(blk=a, cond=s.switches.get(a), vals=vals, all=allv, line=t['line']))
    return out


def truth(g):
    """for a two-way switch on a boolean: True if the guard requires the condition to be true"""
    if set(g['all']) == {0, 'otherwise'}:
        return g['vals'] == ['otherwise']
    return None


PANIC_FNS = ('std::panicking::begin_panic', 'core::panicking::panic', 'core::panicking::panic_fmt',
             'core::panicking::panic_explicit', 'core::panicking::unreachable_display',
             'core::panicking::panic_display', 'std::rt::begin_panic', 'core::panicking::panic_nounwind')


def panic_calls(s):
    return [c for c in s.calls if c['callee'] in PANIC_FNS or (c['callee'] or '').startswith('core::panicking::')
            or (c['callee'] or '').startswith('std::panicking::')]


def subexprs(e, pred):
    return [x for x in walk(e) if pred(x)]
