"""Helpers shared by the rule modules: pattern matching on origin expressions, anchors, idioms."""
from ..expr import norm, show, walk, paths_of, is_unk
from ..inline import Inliner

COMMUTATIVE = {'BitAnd', 'BitOr', 'BitXor', 'Eq', 'Ne', 'Add', 'Mul'}


def V(name):
    return ('?', name)


ANY = ('?any',)


def match(p, e, b=None):
    """structural match of pattern p against expression e; ('?', name) binds, ('?any',) matches all.
    Binary operators in COMMUTATIVE match in either operand order. Returns bindings dict or None."""
    if b is None:
        b = {}
    if isinstance(p, tuple) and p:
        if p[0] == '?':
            if p[1] in b:
                return b if b[p[1]] == e else None
            nb = dict(b)
            nb[p[1]] = e
            return nb
        if p[0] == '?any':
            return b
        if not isinstance(e, tuple) or len(e) != len(p):
            return None
        if p[0] == 'bin' and e[0] == 'bin' and p[1] == e[1] and p[1] in COMMUTATIVE:
            r = match(p[2], e[2], b)
            if r is not None:
                r = match(p[3], e[3], r)
            if r is not None:
                return r
            r = match(p[2], e[3], b)
            if r is not None:
                r = match(p[3], e[2], r)
            return r
        for x, y in zip(p, e):
            b = match(x, y, b)
            if b is None:
                return None
        return b
    if isinstance(p, tuple):
        return b if p == e else None
    return b if p == e else None


def sh(e, n=300):
    s = show(norm(e))
    return s if len(s) <= n else s[:n] + '...'


def BB(e):
    """BitBoard(e) aggregate"""
    return ('agg', 'bitboard::BitBoard', 'BitBoard', (('0', e),))


def SQ(e):
    return ('agg', 'square::Square', 'Square', (('0', e),))


def INT(v, ty='usize'):
    return ('int', v, ty)


def ENUM(adt, v):
    return ('enum', adt, v)


def call(callee, *args, gargs=ANY):
    return ('call', callee, tuple(args), gargs)


def where(body, line=None):
    return body.where(line)


def ninl(ctx, e, config='default'):
    """normalised + inlined + folded form used for comparisons"""
    il = inliner(ctx, config)
    return norm(il.inline(e))


_INL = {}


def inliner(ctx, config='default'):
    k = (id(ctx), config)
    if k not in _INL:
        _INL[k] = Inliner(ctx.an(config))
    return _INL[k]


def summary(ctx, key, rule, config='default'):
    s = ctx.an(config).summary(key)
    if s is None:
        ctx.inconclusive(rule, 'anchor not found: ' + key)
    return s


def find_fn(ctx, candidates, rule, config='default'):
    for k in candidates:
        if k in ctx.facts(config).bodies:
            return k
    ctx.inconclusive(rule, 'anchor not found: ' + ' | '.join(candidates))
    return None


def bool_paths(e):
    """paths of an ite tree with each condition rendered as (cond, truth) where possible"""
    return paths_of(e)


def cond_true(val, cases):
    """for a 2-way switch on a bool-like condition: was the 'true' (non-zero) edge taken?"""
    if val == 'otherwise':
        return 0 in cases
    if val == 0:
        return False
    return True


def switch_vals(body, a, s):
    """switch values of block a that lead to successor s"""
    t = body.blocks[a]['term']
    if t['k'] != 'switch':
        return None
    vals = [v for v, b in t['targets'] if b == s]
    if t['otherwise'] == s:
        vals.append('otherwise')
    return vals


def guards(s, blk, transitive=True):
    """conditions controlling execution of block blk: list of dict(blk, cond, vals, all).
    transitive=True: the NECESSARY branch outcomes -- switch edges (a -> x) such that blk becomes
    unreachable from the entry when that edge is removed (every path to blk takes that outcome).
    transitive=False: immediate control dependence only."""
    cfg = s.cfg
    out = []
    if not transitive:
        deps = cfg.control_deps()[blk]
    else:
        deps = set()
        for a in cfg.order:
            t = s.body.blocks[a]['term']
            if t['k'] != 'switch' or a == blk and False:
                continue
            if not cfg.dominates(a, blk) or a == blk:
                continue
            for x in set(cfg.succ[a]):
                if x in cfg.nodes and not cfg.can_reach(0, blk, removed_edges=[(a, x)]):
                    deps.add((a, x))
    for (a, succ) in sorted(deps):
        t = s.body.blocks[a]['term']
        if t['k'] != 'switch':
            continue
        vals = switch_vals(s.body, a, succ)
        allv = [v for v, _ in t['targets']] + ['otherwise']
        out.append(dict(blk=a, cond=s.switches.get(a), vals=vals, all=allv, line=t['line']))
    return out


def truth(g):
    """for a two-way switch on a boolean: True if the guard requires the condition to be true"""
    if set(g['all']) == {0, 'otherwise'}:
        return g['vals'] == ['otherwise']
    return None


PANIC_FNS = ('std::panicking::begin_panic', 'core::panicking::panic', 'core::panicking::panic_fmt',
             'core::panicking::panic_explicit', 'core::panicking::unreachable_display',
             'core::panicking::panic_display', 'std::rt::begin_panic', 'core::panicking::panic_nounwind')


def panic_calls(s):
    return [c for c in s.calls if c['callee'] in PANIC_FNS or (c['callee'] or '').startswith('core::panicking::')
            or (c['callee'] or '').startswith('std::panicking::')]


def subexprs(e, pred):
    return [x for x in walk(e) if pred(x)]


def for_loops(s):
    """`for x in ITER` loops of a summary: header, blocks, source expression, element expression"""
    out = []
    cfg = s.cfg
    for h, blocks in cfg.loops().items():
        nxt = [c for c in s.calls if c['blk'] in blocks and c['callee'] and c['callee'].endswith('::next')
               and c['argvals'] and c['argvals'][0][0] == 'loop' and c['argvals'][0][1] == h]
        if not nxt:
            continue
        c = nxt[0]
        root = c['argvals'][0][2]
        pre = [p for p in cfg.pred[h] if p in cfg.nodes and p not in blocks]
        src = None
        if len(pre) == 1 and pre[0] in s.exit:
            v = s.exit[pre[0]].get(root)
            if v is not None and v[0] == 'call' and v[1].endswith('::into_iter') and v[2]:
                src = v[2][0]
            elif v is not None:
                src = v
        elem = ('field', ('variant', c['result'], 'Some'), '0')
        out.append(dict(header=h, blocks=blocks, source=src, elem=elem, next=c, pre=pre[0] if len(pre) == 1 else None,
                        iter_root=root))
    return out


def loop_exits(s, l):
    """edges leaving the loop: (from block, to block)"""
    out = []
    for b in l['blocks']:
        for x in s.cfg.succ[b]:
            if x in s.cfg.nodes and x not in l['blocks'] and s.body.blocks[x]['term'].get('k') != 'unreachable':
                out.append((b, x))
    return out


def ctrl_blocks(s, l):
    """the loop header and the block that switches on the iterator's Option (the exhaustion test)"""
    out = {l['header']}
    nr = norm(l['next']['result'])
    for b in l['blocks']:
        c = s.switches.get(b)
        if c is not None and c[0] == 'discr' and norm(c[1]) == nr:
            out.add(b)
    return out



def break_exits(s, l):
    """`break`-like exits of a for loop: edges leaving the loop from a block other than the exhaustion test that do not
    set the return value before joining the code after the loop (a `return v` / `?` inside the loop writes the return
    place on its private way out; a `break` does not)."""
    ctrl = ctrl_blocks(s, l)
    exits = loop_exits(s, l)
    normal = {t for a, t in exits if a in ctrl}
    after = set(normal)
    for n in normal:
        after |= set(s.cfg.reachable_from(n, removed_nodes=l['blocks']))   # the code after the loop, not re-entering it
    ret_blocks = set()
    for st in s.stores:
        tg = st.get('target')
        if st.get('local') and tg and tg[0] == 'ref' and tg[1] == ('l', 0):
            ret_blocks.add(st['blk'])
    for c in s.calls:
        d = c.get('dest')
        if d and d[0] == 'ref' and d[1] == ('l', 0):
            ret_blocks.add(c['blk'])
    out = []
    for a, t in exits:
        if a in ctrl:
            continue
        private = ({t} | set(s.cfg.reachable_from(t))) - after
        if not (private & ret_blocks):
            out.append((a, t))
    return out


def require_no_break(ctx, R, s, l, key, what, consequence):
    """rule instance: the loop `what` of function `key` is left only by exhaustion (or by a return)"""
    brk = sorted({a for a, _ in break_exits(s, l)})
    w = where(s.body, l['next']['line'])
    if brk:
        ctx.violation(R, key + ':early-exit', 'the loop over %s is left by a `break` (block(s) %s) before it is exhausted: %s' % (what, brk, consequence), w)
        return False
    ctx.ok(R, '%s: the loop over %s runs to exhaustion' % (key.split('::')[-1], what), w)
    return True


def enum_paths(s, start, stop_blocks, limit=20000):
    """all acyclic paths from block `start` to any block of stop_blocks (exclusive), as lists of
    (block, taken successor). Loops are not entered (edges into loop headers other than stop are cut)."""
    cfg = s.cfg
    out = []
    stop = set(stop_blocks)

    def rec(b, path, seen):
        if len(out) > limit:
            return
        if b in stop:
            out.append(list(path))
            return
        succs = [x for x in cfg.succ[b] if x in cfg.nodes]
        if not succs:
            if s.body.blocks[b]['term'].get('k') == 'unreachable' and not s.body.blocks[b]['stmts']:
                return          # the compiler's `otherwise -> unreachable` arm of an exhaustive match: not a path
            out.append(list(path) + [(b, None)])
            return
        for x in dict.fromkeys(succs):
            if x in seen:
                continue
            path.append((b, x))
            rec(x, path, seen | {x})
            path.pop()

    rec(start, [], {start})
    return out


def eval_tree(e, decide, bool_leaves=False):
    """walk an ite tree; decide(cond, cases) -> the chosen case value (int | 'otherwise') or None to explore all.
    Returns the list of reachable leaves.  Boolean negation wrapped around a decision (`!(a && b)`) is pushed to the
    leaves; a condition that is itself a decision (`if a && b`) is evaluated first."""
    def flip(leaf):
        if isinstance(leaf, tuple) and leaf and leaf[0] == 'int' and leaf[2] == 'bool':
            return ('int', 1 - leaf[1], 'bool')
        if isinstance(leaf, tuple) and leaf and leaf[0] == 'un' and leaf[1] == 'Not':
            return leaf[2]
        return ('un', 'Not', leaf)

    def rec(x):
        if isinstance(x, tuple) and x and x[0] == 'un' and x[1] == 'Not' and isinstance(x[2], tuple) and x[2] and x[2][0] in ('ite', 'un'):
            return [flip(l) for l in rec(x[2])]
        if isinstance(x, tuple) and x and x[0] == 'ite':
            vals = [v for v, _ in x[2]]
            cond = x[1]
            if isinstance(cond, tuple) and cond and (cond[0] == 'ite' or (cond[0] == 'un' and cond[1] == 'Not' and cond[2][0] == 'ite')):
                # nested decision as condition: each of its boolean outcomes selects a branch
                out = []
                for cl in rec(cond):
                    if isinstance(cl, tuple) and cl and cl[0] == 'int':
                        ch = as_bool(bool(cl[1]), vals) if set(vals) <= {0, 1, 'otherwise'} else cl[1]
                        out += pick(x, ch)
                        continue
                    # the inner decision ends in a condition of its own (`a || f(x)`): decide that one
                    neg, y = False, cl
                    while isinstance(y, tuple) and y and y[0] == 'un' and y[1] == 'Not':
                        neg, y = not neg, y[2]
                    ch = decide(y, [0, 'otherwise']) if isinstance(y, tuple) and y else None
                    if ch is not None and not isinstance(ch, (list, tuple, set)) and set(vals) <= {0, 1, 'otherwise'}:
                        tv = (ch != 0) != neg
                        out += pick(x, as_bool(tv, vals))
                    else:
                        for _, sub in x[2]:
                            out += rec(sub)
                return out
            ch = decide(cond, vals)
            if ch is None:
                out = []
                for _, sub in x[2]:
                    out += rec(sub)
                return out
            if isinstance(ch, (list, tuple, set)):      # several admissible outcomes
                out = []
                for one in ch:
                    out += pick(x, one)
                return out
            return pick(x, ch)
        if bool_leaves and isinstance(x, tuple) and x and x[0] not in ('int', 'never', 'enum', 'agg'):
            # a boolean expression returned as such (`a != EMPTY` as tail expression): decide it like a condition
            neg = False
            y = x
            while y[0] == 'un' and y[1] == 'Not':
                neg, y = not neg, y[2]
            ch = decide(y, [0, 'otherwise'])
            if ch is not None:
                tv = (ch == 'otherwise') != neg
                return [('int', int(tv), 'bool')]
        return [x]

    def pick(x, ch):
        for v, sub in x[2]:
            if v == ch:
                return rec(sub)
        for v, sub in x[2]:
            if v == 'otherwise':
                return rec(sub)
        return []

    return rec(e)


_OPT_IDX = {'None': 0, 'Some': 1, 'Ok': 0, 'Err': 1}


def concretise(e, decide, depth=12):
    """Evaluate an origin expression under a valuation: decide(cond, case values) -> chosen case (or None = unknown).
    Named variables are expanded, decisions are resolved, `discr` / variant-field projections of a now-known
    Option/Result aggregate are folded.  What cannot be resolved stays as an ite (with evaluated branches)."""
    from ..expr import VAR_DEFS
    memo = {}

    def rec(x, d):
        if not isinstance(x, tuple) or not x:
            return x
        k = (x, d)
        if k in memo:
            return memo[k]
        r = rec1(x, d)
        memo[k] = r
        return r

    def rec1(x, d):
        t = x[0]
        if t == 'var':
            if x in VAR_DEFS and d > 0:
                return rec(VAR_DEFS[x], d - 1)
            return x
        if t == 'ite':
            # a condition that is a call is handed to `decide` as written (its subject is not expanded)
            c = x[1] if (isinstance(x[1], tuple) and x[1] and x[1][0] == 'call') else rec(x[1], d)
            vals = [v for v, _ in x[2]]
            ch = None
            if isinstance(c, tuple) and c and c[0] == 'int':
                ch = c[1]
            elif isinstance(c, tuple) and c:
                neg, y = False, c
                while isinstance(y, tuple) and y and y[0] == 'un' and y[1] == 'Not':
                    neg, y = not neg, y[2]
                if y[0] == 'int' and len(y) > 2 and y[2] == 'bool':
                    ch = int(bool(y[1]) != neg)
                else:
                    ch = decide(y, vals if not neg else [0, 'otherwise'])
                    if ch is not None and neg:
                        ch = as_bool(ch == 0, vals)
            if ch is not None:
                for v, sub in x[2]:
                    if v == ch:
                        return rec(sub, d)
                for v, sub in x[2]:
                    if v == 'otherwise':
                        return rec(sub, d)
                return ('never',)
            return ('ite', c, tuple((v, rec(sub, d)) for v, sub in x[2]))
        if t == 'discr' and len(x) == 2:
            y = rec(x[1], d)
            if isinstance(y, tuple) and y and y[0] == 'agg' and y[2] in _OPT_IDX and ('Option' in y[1] or 'Result' in y[1]):
                return ('int', _OPT_IDX[y[2]], 'isize')
            return ('discr', y)
        if t == 'field' and len(x) == 3 and isinstance(x[1], tuple) and x[1] and x[1][0] == 'variant':
            y = rec(x[1][1], d)
            if isinstance(y, tuple) and y and y[0] == 'agg' and y[2] == x[1][2]:
                comp = dict(y[3]).get(x[2])
                if comp is not None:
                    return comp
            return ('field', ('variant', y, x[1][2]), x[2])
        return tuple(rec(c, d) if isinstance(c, tuple) else c for c in x)
    return rec(e, depth)


def tree_leaves(e):
    if isinstance(e, tuple) and e and e[0] == 'ite':
        out = []
        for _, sub in e[2]:
            out += tree_leaves(sub)
        return out
    return [e]


def as_bool(ch, vals):
    """map a python bool onto the case value of a two-way switch"""
    if set(vals) == {0, 'otherwise'}:
        return 'otherwise' if ch else 0
    if set(vals) == {1, 'otherwise'}:
        return 1 if ch else 'otherwise'
    if set(vals) == {0, 1}:
        return 1 if ch else 0
    return None


def loop_latch_value(s, loop, root):
    """value of `root` when control returns to the loop header.  With several back edges (`continue` in the body) the
    values are merged into a decision tree over the switches of the loop body; paths that leave the loop do not count."""
    from ..expr import mk_ite
    cfg = s.cfg
    h = loop['header']
    back = {}
    for (a, b) in cfg.back_edges():
        if b == h and a in s.exit:
            back[a] = s.exit[a].get(root)
    if any(v is None for v in back.values()) or not back:
        return None
    if len(back) == 1:
        return list(back.values())[0]
    blocks = set(loop['blocks']) | {h}
    memo = {}
    onstack = set()

    def tree(b):
        if b in memo:
            return memo[b]
        if b in onstack:
            return None          # an inner cycle: not a decision tree
        onstack.add(b)
        r = tree1(b)
        onstack.discard(b)
        memo[b] = r
        return r

    def edge(frm, to):
        if to == h:
            return back.get(frm)
        if to not in blocks:
            return ('never',)
        return tree(to)

    def tree1(b):
        t = s.body.blocks[b]['term']
        succs = s.body.successors(b)
        if not succs:
            return ('never',)
        if t['k'] == 'switch':
            cond = s.switches.get(b)
            if cond is None:
                return None
            cases = []
            for v, tb in t['targets']:
                e = edge(b, tb)
                if e is None:
                    return None
                cases.append((v, e))
            e = edge(b, t['otherwise'])
            if e is None:
                return None
            cases.append(('otherwise', e))
            return mk_ite(cond, tuple(cases))
        return edge(b, succs[0])
    return tree(h)


def count_after(e, callee_suffix):
    """number of nested ('after', _, callee, ...) wrappers whose callee ends with the suffix"""
    n = 0
    while isinstance(e, tuple) and e and e[0] == 'after':
        if e[2].endswith(callee_suffix):
            n += 1
        e = e[3]
    return n, e


def _find_ite(e):
    if isinstance(e, tuple) and e:
        if e[0] == 'ite':
            return e
        for x in e[1:] if isinstance(e[0], str) else e:
            if isinstance(x, tuple):
                r = _find_ite(x)
                if r is not None:
                    return r
    return None


def _replace_once(e, old, new):
    if e is old or e == old:
        return new
    if isinstance(e, tuple):
        return tuple(_replace_once(x, old, new) if isinstance(x, tuple) else x for x in e)
    return e


def paths_deep(e, limit=5000):
    """like paths_of, but also splits on ite nodes nested inside aggregates and call arguments.
    Conditions of the outer tree come first. Branches whose value is `never` are dropped."""
    out = []
    _nc = {}

    def ncache(c):
        # the same condition may reach two components in forms that differ only in wrappers / call-site ids
        k = id(c)
        if k not in _nc:
            _nc[k] = (c, norm(c))
        return _nc[k][1]

    def rec(x, conds):
        if len(out) > limit:
            return
        it = _find_ite(x)
        if it is None:
            out.append((conds, x))
            return
        # conditions may themselves contain ites: split those first
        inner = _find_ite(it[1])
        if inner is not None:
            it = inner
        allv = tuple(c for c, _ in it[2])
        nc = ncache(it[1])
        decided = [v for c, v, _ in conds if c == it[1] or ncache(c) == nc]
        for v, sub in it[2]:
            if sub == ('never',):
                continue
            if decided:
                if v != decided[0]:
                    continue
                rec(_replace_once(x, it, sub), conds)
            else:
                rec(_replace_once(x, it, sub), conds + ((it[1], v, allv),))

    rec(e, ())
    return out


def dnf(s, blk, within=None, limit=512):
    """Reaching condition of block blk as a disjunction of conjunctions of branch outcomes, from the
    control-dependence graph: blk is reached iff for some (a, x) in CD(blk): a is reached and edge
    a -> x is taken. Returns a list of disjuncts, each a list of dict(blk, cond, vals, all, truth).
    `within`: only expand branch blocks inside this set (e.g. a loop body). Cycles are cut."""
    cfg = s.cfg
    cd = cfg.control_deps()
    memo = {}

    def lit(a, x):
        t = s.body.blocks[a]['term']
        if t['k'] != 'switch':
            return None
        vals = switch_vals(s.body, a, x)
        allv = [v for v, _ in t['targets']] + ['otherwise']
        g = dict(blk=a, cond=s.switches.get(a), vals=vals, all=allv, line=t['line'])
        g['truth'] = truth(g)
        return g

    def rec(b, stack):
        if b in memo:
            return memo[b]
        deps = [(a, x) for (a, x) in sorted(cd.get(b, ())) if a != b and a not in stack and (within is None or a in within)]
        deps = [(a, x) for (a, x) in deps if s.body.blocks[a]['term']['k'] == 'switch']
        if not deps:
            return [[]]
        out = []
        for (a, x) in deps:
            l = lit(a, x)
            for conj in rec(a, stack | {b}):
                out.append(conj + [l])
                if len(out) > limit:
                    return out
        if not stack:
            memo[b] = out
        return out

    return rec(blk, frozenset())


class Sub:
    """collects the findings of another rule set so that selected rules can be re-labelled"""

    def __init__(self, ctx, mapping):
        self.ctx = ctx
        self.mapping = mapping

    def __getattr__(self, name):
        return getattr(self.ctx, name)

    def _m(self, rule):
        return self.mapping.get(rule)

    def ok(self, rule, desc, where=''):
        if self._m(rule):
            self.ctx.ok(self._m(rule), desc, where)

    def instance(self, rule, desc, where=''):
        if self._m(rule):
            self.ctx.instance(self._m(rule), desc, where)

    def violation(self, rule, key, msg, where=''):
        if self._m(rule):
            self.ctx.violation(self._m(rule), key, msg, where)

    def inconclusive(self, rule, reason):
        if self._m(rule):
            self.ctx.inconclusive(self._m(rule), reason)

    def bulk(self, rule, total, discharged):
        if self._m(rule):
            self.ctx.bulk(self._m(rule), total, discharged)

    def floor(self, rule, what, count, minimum):
        if self._m(rule):
            return self.ctx.floor(self._m(rule), what, count, minimum)
        return True

    def note(self, s):
        pass


_Sub = Sub


def bypass_decisions(s, h):
    """Ways of reaching a return of summary s without passing block h (a loop header that should run on every path):
    list of (switch block, condition, truth value under which h is bypassed | None).  Empty list: h is on every path."""
    body = s.body

    def reach_avoid(start):
        seen = {start}
        st = [start]
        while st:
            b = st.pop()
            for x in body.successors(b):
                if x != h and x not in seen:
                    seen.add(x)
                    st.append(x)
        return seen
    rets = set(body.return_blocks())
    A = reach_avoid(0)
    if not (A & rets):
        return []
    B = {b for b in A if reach_avoid(b) & rets}
    out = []
    for b in sorted(B):
        t = body.blocks[b]['term']
        if t['k'] != 'switch':
            continue
        edges = [(v, tb) for v, tb in t['targets']] + [('otherwise', t['otherwise'])]
        live = [(v, tb) for v, tb in edges if body.blocks[tb]['term']['k'] != 'unreachable']
        if all(tb in B for _, tb in live):
            continue
        vals = [v for v, _ in edges]
        by = [v for v, tb in live if tb in B]
        tv = None
        if set(vals) == {0, 'otherwise'} and len(by) == 1:
            tv = by[0] == 'otherwise'
        out.append((b, s.switches.get(b), tv))
    if not out:
        out.append((None, None, None))
    return out


def debug_parity(ctx, R, anchors):
    """What a function does to program state must not depend on debug assertions being compiled in: the transitive write
    set and the set of crate functions reachable from each anchor are compared between the default extraction and one with
    `-C debug-assertions=off` (a mutation inside `debug_assert!(..)` exists in one of them only)."""
    # Shortcut: the two extractions can differ only where the crate's own source mentions debug assertions
    # (`debug_assert*!`, `cfg(debug_assertions)`, `cfg!(debug_assertions)`).  Without such a token in src/ the second
    # extraction would be identical in everything this rule compares, and is not made.
    import os as _os
    mention = []
    src = _os.path.join(ctx.repo, 'src')
    for dp, _, fns in _os.walk(src):
        for fn in fns:
            if fn.endswith('.rs'):
                try:
                    txt = open(_os.path.join(dp, fn), errors='replace').read()
                except OSError:
                    continue
                if 'debug_assert' in txt:
                    mention.append(_os.path.relpath(_os.path.join(dp, fn), ctx.repo))
    if not mention and _os.path.isdir(src):
        ctx.ok(R, 'no `debug_assert` / `debug_assertions` token anywhere in src/: the crate is the same with and without debug '
               'assertions (anchors: %s)' % ', '.join(k.rsplit('::', 1)[-1] for k in anchors), 'src/')
        return
    try:
        e0, e1 = ctx.eff('default'), ctx.eff('nodebug')
        f0, f1 = ctx.facts('default'), ctx.facts('nodebug')
    except Exception as ex_:
        ctx.inconclusive(R, 'no extraction without debug assertions: %s' % str(ex_)[:200])
        return
    for k in anchors:
        if k not in f0.bodies or k not in f1.bodies:
            ctx.inconclusive(R, 'anchor not found in both configurations: ' + k)
            continue
        w0, w1 = set(e0.writes(k)), set(e1.writes(k))
        r0 = {x for x in e0.reach(k) if '::{' not in x}
        r1 = {x for x in e1.reach(k) if '::{' not in x}
        where_ = '%s:%s' % (f0.bodies[k].file, f0.bodies[k].lo)
        if w0 != w1 or r0 != r1:
            only = sorted('%s.%s' % (a.rsplit('::', 1)[-1], fl) for a, fl in (w0 - w1)) + sorted(x.rsplit('::', 1)[-1] + '()' for x in (r0 - r1))
            ctx.violation(R, k + ':debug-only-effect', '%s changes state only when debug assertions are compiled in (%s): a side effect '
                          'sits inside debug_assert!/cfg(debug_assertions), so release builds behave differently' % (k, ', '.join(only[:6]) or 'differs'), where_)
        else:
            ctx.ok(R, '%s: same write set (%d fields) and same reachable crate functions (%d) with and without debug assertions' % (
                k.rsplit('::', 1)[-1], len(w0), len(r0)), where_)


ACCESSOR_TABLES = {
    'magic::get_king_moves': ['KING_MOVES'], 'magic::get_knight_moves': ['KNIGHT_MOVES'], 'magic::get_rank': ['RANKS'],
    'magic::get_file': ['FILES'], 'magic::get_adjacent_files': ['ADJACENT_FILES'], 'magic::get_rook_rays': ['RAYS', 'ROOK'],
    'magic::get_bishop_rays': ['RAYS', 'BISHOP'], 'magic::between': ['BETWEEN'], 'magic::line': ['LINE'],
    'magic::get_castle_moves': ['CASTLE_MOVES'], 'magic::get_pawn_source_double_moves': ['PAWN_SOURCE_DOUBLE_MOVES'],
    'magic::get_pawn_dest_double_moves': ['PAWN_DEST_DOUBLE_MOVES'], 'magic::get_pawn_attacks': ['PAWN_ATTACKS'],
    'magic::get_pawn_quiets': ['PAWN_MOVES'], 'magic::get_pawn_moves': ['PAWN_ATTACKS', 'PAWN_MOVES'],
    'castle_rights::CastleRights::kingside_squares': ['KINGSIDE_CASTLE_SQUARES'],
    'castle_rights::CastleRights::queenside_squares': ['QUEENSIDE_CASTLE_SQUARES'],
}
SLIDER_LOOKUPS = ('magic::get_rook_moves', 'magic::get_bishop_moves')


class _SubKeys(Sub):
    """Sub that keeps only the findings about the named tables / accessors"""

    def __init__(self, ctx, mapping, names):
        Sub.__init__(self, ctx, mapping)
        self.names = names

    def _hit(self, text):
        return any(n in text for n in self.names)

    def violation(self, rule, key, msg, where=''):
        if self._hit(key):
            Sub.violation(self, rule, key, msg, where)

    def ok(self, rule, desc, where=''):
        if self._hit(desc) or self._hit(where):
            Sub.ok(self, rule, desc, where)

    def bulk(self, rule, total, discharged):
        pass

    def floor(self, rule, what, count, minimum):
        return True


def tables_dep(ctx, R, entries, only=None):
    """The geometry the rule sets of a property take as given.  The accessors reachable in the call graph from the property's
    anchor functions `entries` select the constant tables that matter to it; each of those equals its definition (C16.R1)
    and each reachable accessor indexes its table with its arguments in the right roles (C16.R2); when a slider lookup is
    reachable, also C15.R1/R2 for the default configuration.  `only` narrows the accessors to the ones the property's clauses
    are computed from (when the anchors also do unrelated work).  Findings are relabelled to rule R of the calling property."""
    from . import c16
    eff = ctx.eff()
    f = ctx.facts()
    reach = set()
    missing = [e for e in entries if e not in f.bodies]
    for e in entries:
        if e in f.bodies:
            reach |= eff.reach(e)
            for cl in [k for k in f.bodies if k.startswith(e + '::{closure')]:
                reach |= eff.reach(cl)
    for e in missing:
        ctx.inconclusive(R, 'anchor not found: ' + e)
    accs = sorted(a for a in ACCESSOR_TABLES if a in reach and (only is None or a in only))
    names = set(accs)
    for a in accs:
        names |= {'magic::' + t for t in ACCESSOR_TABLES[a]}
    if accs:
        sub = _SubKeys(ctx, {'C16.R1': R, 'C16.R2': R}, names)
        c16.r1(sub)
        c16.r2(sub)
        ctx.ok(R, 'geometry reachable from the anchors: %s -- tables and accessor shapes audited' % ', '.join(a.rsplit('::', 1)[-1] for a in accs), '')
    if any(a in reach for a in SLIDER_LOOKUPS):
        from . import c15
        sub = Sub(ctx, {'C15.R1': R, 'C15.R2': R})
        out = c15.r1(sub, 'default')
        if out is not None:
            c15.r2(sub, 'default', out[0], out[1])
    return accs


def decide_equal(ctx, expects, got, config=None):
    """Is `got` one of the expected expressions?  First literally (patterns may hold wildcards), then as decision trees
    (sa/treeq.py: negated tests, swapped branches, `match` vs `if`, nested `if` vs `&&`, early returns).
    -> ('ok', None) | ('violation', text describing a valuation on which they differ) | ('inconclusive', reason)"""
    from ..treeq import TreeEq, strip_calls, show_env
    for p in expects:
        if match(p, got) is not None:
            return 'ok', None

    def has_wild(p):
        return any(isinstance(x, tuple) and x and x[0] in ('?', '?any') for x in walk_all(p))

    def canon(e):
        def rec(x):
            if isinstance(x, tuple) and x:
                if x[0] == 'constdef':
                    return ('constdef', x[1])
                return tuple(rec(y) if isinstance(y, tuple) else y for y in x)
            return x
        return rec(strip_calls(norm(e)))
    te = TreeEq(ctx.facts(config) if config else ctx.facts(), canon=canon)
    verdicts = []
    for p in expects:
        p = strip_calls(p)          # generic-argument wildcards of call patterns do not matter here
        if has_wild(p):
            continue
        try:
            verdicts.append(te.equal(p, got))
        except RecursionError:
            verdicts.append((None, 'expression too deep'))
    if any(v[0] is True for v in verdicts):
        return 'ok', 'equivalent decision tree'
    bad = [v for v in verdicts if v[0] is False]
    if bad and len(bad) == len(verdicts):
        env, la, lb = bad[0][1]
        return 'violation', 'differs e.g. when %s: yields %s where %s is required' % (show_env(env, sh) or 'always', sh(lb, 160), sh(la, 160))
    return 'inconclusive', (verdicts[0][1] if verdicts else 'no concrete expected form to compare with')


def walk_all(e):
    """every node and scalar of a (pattern) tuple tree"""
    yield e
    if isinstance(e, tuple):
        for x in e:
            yield from walk_all(x)


def specialise(ctx, s, consts, nparams=None, config=None):
    """the return value of summary `s` with some parameters fixed to constants ({param number: const expr}) and folded;
    the other parameters stay symbolic.  Used to read finite maps (per colour / per piece) off a function however its
    decision is spelled."""
    il = inliner(ctx, config) if config else inliner(ctx)
    n = nparams or len(s.body.raw.get('args', [])) or max([0] + list(consts)) if hasattr(s.body, 'raw') else max([0] + list(consts))
    n = max(n, max([0] + list(consts)))
    args = tuple(consts.get(i, ('param', i)) for i in range(1, n + 1))
    return norm(il.fold(il.subst(s.ret, args)))


def expanded_calls(ctx, s, is_target, depth=2, config=None, allow_conditional=False):
    """the calls of summary `s` that satisfy is_target(call), looking through private crate helpers: a call of a helper
    whose body makes target calls unconditionally is replaced by those calls, with the helper's parameters and its
    (single) generic parameter substituted by the arguments of the call site.  Records keep the OUTER block/line, so
    guards are those of the call site.  A helper that makes target calls conditionally yields a record with
    callee=None (unknown)."""
    il = inliner(ctx, config) if config else inliner(ctx)
    an = ctx.an(config) if config else ctx.an()
    facts = ctx.facts(config) if config else ctx.facts()
    out = []

    def has_target(key, d, seen):
        body = facts.bodies.get(key)
        if body is None or key in seen or d < 0:
            return False
        sm = an.summary(key)
        if sm is None:
            return False
        return any(is_target(c) or (c['callee'] in facts.bodies and has_target(c['callee'], d - 1, seen | {key})) for c in sm.calls if c['callee'])

    def rec(sm, outer, args, gsub, d):
        for c in sm.calls:
            if not c['callee']:
                continue
            argvals = tuple(norm(il.subst(a, args)) if args is not None else a for a in c['argvals'])
            gargs = tuple(gsub.get(g, g) for g in c['gargs'])
            callee = c['callee']
            for g, v in gsub.items():
                # trait-static calls carry the type in the callee key: `<T as Trait>::f`
                callee = callee.replace('<%s as ' % g, '<%s as ' % v)
            rc = dict(c, callee=callee, argvals=argvals, gargs=gargs)
            if outer is not None:
                rc.update(blk=outer['blk'], line=outer['line'], via=sm.body.key if hasattr(sm.body, 'key') else None)
            if is_target(rc):
                if outer is not None and not allow_conditional and dnf(sm, c['blk']) not in ([], [[]]) and \
                        any(g_['cond'] is not None for conj in dnf(sm, c['blk']) for g_ in conj):
                    out.append(dict(rc, callee=None, why='conditional inside helper'))
                else:
                    out.append(rc)
            elif d > 0 and callee in facts.bodies and not (facts.fns.get(callee) or {}).get('pub') and has_target(callee, d - 1, set()):
                hs = an.summary(callee)
                gs = {}
                free = sorted({g for cc in hs.calls for g in cc['gargs'] if isinstance(g, str) and '::' not in g and g[:1].isupper() and len(g) <= 2})
                if len(free) == 1 and len(c['gargs']) >= 1:
                    gs[free[0]] = gargs[-1]
                elif free:
                    out.append(dict(rc, callee=None, why='helper with several generic parameters'))
                    continue
                o2 = outer if outer is not None else c
                rec(hs, dict(blk=o2['blk'], line=o2['line']), argvals, gs, d - 1)
    rec(s, None, None, {}, depth)
    return out


def return_sites(s):
    """every write of the return place: assignments and calls whose destination it is -> dict(blk, line, value)"""
    out = [dict(blk=st['blk'], line=st['line'], value=st['value']) for st in s.stores
           if st.get('local') and st['target'] == ('ref', ('l', 0), ())]
    out += [dict(blk=c['blk'], line=c['line'], value=c['result']) for c in s.calls if c.get('dest') == ('ref', ('l', 0), ())]
    return out


def conj_possible(conj, decide):
    """can every branch outcome of a reaching condition (one disjunct of dnf()) hold under the valuation `decide`
    describes?  Each literal is probed through eval_tree, so nested boolean temps (`a && matches!(..)`) are evaluated."""
    for g in conj:
        if g['cond'] is None:
            continue
        probe = ('ite', g['cond'], tuple((v, ('int', i, 'case')) for i, v in enumerate(g['all'])))
        chosen = {g['all'][l[1]] for l in eval_tree(probe, decide) if isinstance(l, tuple) and l and l[0] == 'int' and l[2] == 'case'}
        if not (chosen & set(g['vals'])):
            return False
    return True


def expand_bool(c, tv, open_var=None, rewrite=None):
    """alternatives under which boolean expression c has truth value tv; each alternative is a list of (atom, truth).
    Looks through `!`, and through the short-circuit temps the compiler builds for `a && b` / `a || b` / `matches!`.
    open_var(var node) -> bool: also look into a named merge value (a `let ok = a && b;` that got a name)."""
    if not isinstance(c, tuple) or not c:
        return [[(c, tv)]]
    if c[0] == 'var' and open_var is not None and open_var(c):
        from ..expr import expand_var
        d = norm(expand_var(c))
        if d != c:
            return expand_bool(d, tv, open_var, rewrite)
    if c[0] == 'int':
        return [[]] if bool(c[1]) == tv else []
    if c[0] == 'un' and c[1] == 'Not':
        return expand_bool(c[2], not tv, open_var, rewrite)
    if c[0] == 'ite' and all(v in (0, 1, 'otherwise') for v, _ in c[2]) and \
            all(isinstance(x, tuple) and x and (x[0] in ('int', 'ite', 'un', 'call', 'bin', 'bbeq', 'bbne')) for _, x in c[2]):
        out = []
        for v, sub in c[2]:
            for alt_s in expand_bool(sub, tv, open_var, rewrite):
                for alt_c in expand_bool(c[1], v != 0, open_var, rewrite):
                    out.append(alt_c + alt_s)
        return out
    if rewrite is not None:
        r = rewrite(c)
        if r is not None and r != c:
            return expand_bool(r, tv, open_var, rewrite)
    return [[(c, tv)]]


def expand_conj(conj, open_var=None, rewrite=None):
    """a disjunct of dnf() with every boolean-temp literal expanded: list of alternative guard lists (pseudo guards
    carry cond / truth / vals / all / blk / line like real ones)"""
    alts = [[]]
    for g in conj:
        if g['cond'] is None or g['truth'] is None:
            alts = [a + [g] for a in alts]
            continue
        ex = expand_bool(norm(g['cond']), g['truth'], open_var, rewrite)
        new = []
        for a in alts:
            for e in ex:
                new.append(a + [dict(g, cond=atom, truth=tv, vals=(['otherwise'] if tv else [0]), all=[0, 'otherwise']) for atom, tv in e])
        alts = new
    return alts


def push_proj(e):
    """distribute field / variant projections over decisions: (ite(c; a, b) as Some).0 -> ite(c; (a as Some).0, ..), and
    resolve them on aggregate leaves; a projection of the wrong variant becomes `never`"""
    from ..expr import expand_var
    if not isinstance(e, tuple) or not e:
        return e
    if e[0] == 'field' and isinstance(e[1], tuple) and e[1]:
        inner = push_proj(e[1])
        if inner[0] == 'var':
            inner = push_proj(norm(expand_var(inner)))
        if inner[0] == 'ite':
            return ('ite', inner[1], tuple((v, push_proj(('field', x, e[2]))) for v, x in inner[2]))
        if inner[0] == 'never':
            return inner
        if inner[0] == 'variant' and isinstance(inner[1], tuple) and inner[1] and inner[1][0] == 'agg':
            if inner[1][2] != inner[2]:
                return ('never',)
            for n_, x in inner[1][3]:
                if n_ == e[2]:
                    return x
        if inner[0] == 'agg':
            for n_, x in inner[3]:
                if n_ == e[2]:
                    return x
        return ('field', inner, e[2])
    if e[0] == 'variant' and isinstance(e[1], tuple) and e[1]:
        inner = push_proj(e[1])
        if inner[0] == 'var':
            inner = push_proj(norm(expand_var(inner)))
        if inner[0] == 'ite':
            return ('ite', inner[1], tuple((v, push_proj(('variant', x, e[2]))) for v, x in inner[2]))
        if inner[0] == 'agg' and inner[2] != e[2]:
            return ('never',)
        if inner[0] == 'enum' and inner[2] != e[2]:
            return ('never',)
        return ('variant', inner, e[2])
    return e


def inline_private(ctx, e, config='default', keep=()):
    """`e` with calls of non-public crate functions (private helpers such as `fn is_over(&self)`) replaced by their
    bodies; public functions and the ones named in `keep` stay calls"""
    il = inliner(ctx, config)
    facts = ctx.facts(config) if config != 'default' else ctx.facts()

    def only(k):
        fn = facts.fns.get(k)
        return fn is not None and not fn.get('pub') and k not in keep
    try:
        cur = norm(e)
        for _ in range(4):
            nxt = norm(il.inline(cur, only=only))
            if nxt == cur:
                break
            cur = nxt
        return cur
    except Exception:
        return norm(e)


def count_guard_holds(g, n, setexpr, canon):
    """does guard g (a taken switch edge) hold when popcount(setexpr) == n?  None if g is not a condition on that count.
    Understands `s == EMPTY` / `s != EMPTY`, comparisons of `s.popcnt()` with a constant, and `match s.popcnt() {..}`."""
    c = canon(g['cond'])
    pc = ('popcnt', setexpr)
    if c[0] in ('bbeq', 'bbne') and ('bb0',) in c[1:] and setexpr in c[1:]:
        tv = (n == 0) if c[0] == 'bbeq' else (n != 0)
        t_ = truth(g)
        return None if t_ is None else (tv == t_)
    if c == pc or (c[0] == 'cast' and c[1] == pc):
        vals = g['vals']
        if 'otherwise' in vals:
            listed = [v for v in g['all'] if v != 'otherwise']
            return n not in listed
        return n in vals
    if c[0] == 'bin' and c[1] in ('Eq', 'Ne', 'Lt', 'Le', 'Gt', 'Ge') and c[3][0] == 'int' and c[2] == pc:
        k = c[3][1]
        tv = {'Eq': n == k, 'Ne': n != k, 'Lt': n < k, 'Le': n <= k, 'Gt': n > k, 'Ge': n >= k}[c[1]]
        t_ = truth(g)
        return None if t_ is None else (tv == t_)
    return None
