"""C18 — null move: refused in check, otherwise only passes the turn.

R1: None is returned iff checkers != EMPTY.
R2 FRAME: the transitive write set of null_move is within {side_to_move, en_passant, pinned,
   checkers}: placement, castling rights and hash untouched.
R3: on the Some path the value is the source with side_to_move negated and en_passant = None,
   and the last mutation is the from-scratch cache recomputation (same routine as construction
   from text, so caches are equal by construction; hash equal by C08.R3).
R5 BUILD-PARITY: the write set and the reachable crate functions of null_move are the same with and without debug
   assertions (a recomputation inside debug_assert! would exist in test builds only).
R4 FROM-SCRATCH (= C03.R2/R3 on update_pin_info): that routine overwrites both caches on every path and collects the
   full attacker set of the new side to move's king."""
from .common import *
from ..bb import bb, cnot
from ..expr import peel_upd

LEVEL = 'proof'
EXHAUSTIVE = True
EXPLANATION = ('Decision table of the return value, transitive effect set (frame), and value shape of the Some payload '
               'from origin expressions of Board::null_move; all paths of the function at once; the from-scratch routine it ends with is held to the C03 reset and scan rules.')
NOT_DECIDED = 'nothing of substance'
KEY = 'board::Board::null_move'
UPI = 'board::Board::update_pin_info'
BOARD = 'board::Board'
SELF = ('mem', ('p', 1))


def r4(ctx):
    from . import c03
    sub = Sub(ctx, {'C03.R2': 'C18.R4', 'C03.R3': 'C18.R4'})
    if UPI not in ctx.facts().bodies:
        ctx.inconclusive('C18.R4', 'the from-scratch routine %s is not present' % UPI)
        return
    c03.recomputer(sub, 'C03.R2', UPI)
    c03.r3(sub, [], floor=1)


def run(ctx):
    bb(('unit',), ctx.an())
    r4(ctx)
    # R5 BUILD-PARITY: what null_move writes and calls does not depend on debug assertions
    debug_parity(ctx, 'C18.R5', [KEY])
    s = summary(ctx, KEY, 'C18.R1')
    if s is None:
        return
    w = where(s.body)
    il = inliner(ctx)
    NOT = '<color::Color as core::ops::bit::Not>::not'
    r = bb(il.inline(s.ret, only=lambda k: k not in (NOT, UPI)))
    none = ('agg', 'core::option::Option', 'None', ())
    # the value for "in check" and for "not in check", however the test is spelled (==, !=, popcnt, negated, early return)
    CK = ('field', SELF, 'checkers')
    unknown = []

    def branch(incheck):
        def decide(c, vals):
            if c[0] in ('bbeq', 'bbne') and set(c[1:]) == {('bb0',), CK}:
                return as_bool(incheck == (c[0] == 'bbne'), vals)
            if c[0] == 'bin' and c[1] in ('Eq', 'Ne') and len(c) == 4:
                # the derived equality inlined to the words: checkers.0 == 0
                sides = {sh(c[2], 80), sh(c[3], 80)}
                if any('checkers' in x for x in sides) and any(x.startswith('bb0') or x.startswith('0:') for x in sides):
                    return as_bool(incheck == (c[1] == 'Ne'), vals)
            if c[0] == 'bin' and c[1] in ('Eq', 'Ne', 'Gt', 'Ge', 'Lt', 'Le') and c[2] == ('popcnt', CK) and c[3][0] == 'int':
                n_ = 1 if incheck else 0
                k_ = c[3][1]
                return as_bool({'Eq': n_ == k_, 'Ne': n_ != k_, 'Gt': n_ > k_, 'Ge': n_ >= k_, 'Lt': n_ < k_, 'Le': n_ <= k_}[c[1]], vals)
            unknown.append(c)
            return None
        return [l for l in eval_tree(r, decide) if l != ('never',)]
    tb, fb = branch(True), branch(False)
    if unknown or len(tb) != 1 or len(fb) != 1:
        if unknown:
            ctx.violation('C18.R1', KEY, 'null_move decides on something other than `checkers != EMPTY`: ' + sh(unknown[0], 200), w)
        else:
            ctx.violation('C18.R1', KEY, 'null_move is not a two-way decision on `checkers != EMPTY`: ' + sh(r, 300), w)
        return
    t_branch, f_branch = tb[0], fb[0]
    if t_branch == none and f_branch[0] == 'agg' and f_branch[2] == 'Some':
        ctx.ok('C18.R1', 'null_move returns None iff checkers != EMPTY', w)
    else:
        ctx.violation('C18.R1', KEY, 'null_move must return None exactly when in check; in check -> %s, otherwise -> %s' % (
            sh(t_branch, 80), sh(f_branch, 80)), w)
        return
    # R2 frame
    wr = {f for a, f in ctx.eff().writes(KEY) if a == BOARD}
    allowed = {'side_to_move', 'en_passant', 'pinned', 'checkers'}
    if wr <= allowed and '*' not in wr:
        ctx.ok('C18.R2', 'null_move writes only %s (placement, rights, hash untouched)' % sorted(wr), w)
    else:
        ctx.violation('C18.R2', KEY + ':frame', 'null_move may write %s' % sorted(wr - allowed), w)
    for need in ('side_to_move', 'en_passant'):
        if need not in wr:
            ctx.violation('C18.R2', KEY + ':frame:' + need, 'null_move does not write %s' % need, w)
    # R3 value
    payload = dict(f_branch[3])['0']
    n_upi, inner = 0, payload
    if payload[0] == 'after' and payload[2] == UPI:
        inner = payload[3]
        n_upi = 1
    if n_upi != 1 and payload[0] == 'after':
        inner = payload[3]
    if n_upi != 1:
        ctx.violation('C18.R3', KEY + ':recompute', 'the last mutation of the result is not the from-scratch cache recomputation: ' +
                      sh(payload, 200), w)
    else:
        ctx.ok('C18.R3', 'caches recomputed by update_pin_info after the last change', w)
    base, fs = peel_upd(inner)
    stm = ('field', SELF, 'side_to_move')
    if base == SELF and fs.get('side_to_move') == cnot(stm):
        ctx.ok('C18.R3', 'result.side_to_move = !self.side_to_move (one flip)', w)
    else:
        ctx.violation('C18.R3', KEY + ':side', 'side to move of the result is %s' % sh(fs.get('side_to_move', 'unchanged'), 100), w)
    if fs.get('en_passant') == none:
        ctx.ok('C18.R3', 'result.en_passant = None', w)
    else:
        ctx.violation('C18.R3', KEY + ':ep', 'en-passant state of the result is %s' % sh(fs.get('en_passant', 'unchanged'), 100), w)
    extra = set(fs) - {'side_to_move', 'en_passant'}
    if extra:
        ctx.violation('C18.R3', KEY + ':extra', 'null_move also changes %s before the recomputation' % sorted(extra), w)
