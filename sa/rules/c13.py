"""C13 — coordinate (UCI) move and square text round-trips and parsing is total.

R1 PANIC-AUDIT on Square::from_str and ChessMove::from_str (shared panic audit, see panics.py).
R2 TABLES: Square writer emits 'a' + (sq & 7) then '1' + (sq >> 3); the reader accepts exactly
   'a'..'h' then '1'..'8' at characters 0 and 1 and decodes File::from_index(c0 - 'a'),
   Rank::from_index(c1 - '1') into make_square(rank, file); promotion letters accepted by the move
   reader are exactly the writer's letters of the four promotion pieces.
R3 LAYOUT: source from bytes 0..2, destination from bytes 2..4, promotion only when the length is 5
   and from the last character; Display order is source, destination, promotion => a successful
   parse renders to a prefix of its input."""
from .common import *
from .textfmt import *
from . import panics

LEVEL = 'other'
EXHAUSTIVE = True
EXPLANATION = ('Reader/writer agreement extracted from the MIR: the Display impls are decoded into (letter formulas, '
               'argument order) and the FromStr impls into accepted character sets, decoding formulas and byte ranges; '
               'the two finite tables are compared. Totality: panic audit of every Assert/unwrap/index site reachable '
               'from the two parsers.')
NOT_DECIDED = 'nothing of substance'

SQ_FROM = '<square::Square as core::str::traits::FromStr>::from_str'
SQ_FMT = '<square::Square as core::fmt::Display>::fmt'
MV_FROM = '<chess_move::ChessMove as core::str::traits::FromStr>::from_str'
MV_FMT = '<chess_move::ChessMove as core::fmt::Display>::fmt'
SELF = ('mem', ('p', 1))


def r2(ctx):
    R = 'C13.R2'
    # writer
    s = summary(ctx, SQ_FMT, R)
    if s is None:
        return
    w = where(s.body)
    parts = fmt_parts(s.ret)
    word = ('field', SELF, '0')
    fl = ('cast', ('bin', 'Add', ('cast', ('int', ord('a'), 'char'), 'u8'), ('bin', 'BitAnd', word, ('int', 7, 'u8'))), 'char')
    rk = ('cast', ('bin', 'Add', ('cast', ('int', ord('1'), 'char'), 'u8'), ('bin', 'Shr', word, ('int', 3, ANY))), 'char')
    if parts is not None and len(parts) == 2 and parts[0][0] == 'arg' and parts[1][0] == 'arg' and \
            match(fl, parts[0][1]) is not None and match(rk, parts[1][1]) is not None:
        ctx.ok(R, "Square writer: ('a' + (sq & 7)) then ('1' + (sq >> 3))", w)
    else:
        ctx.violation(R, SQ_FMT, "Square is not rendered as file letter 'a'+(sq&7) followed by rank digit '1'+(sq>>3): %s" % (
            [sh(p[1], 120) if p[0] == 'arg' else p for p in (parts or [])]), w)
    # reader
    s = summary(ctx, SQ_FROM, R)
    if s is None:
        return
    w = where(s.body)
    chars = call('core::iter::traits::iterator::Iterator::collect', call('core::str::<impl str>::chars', ('param', 1)))
    at = lambda i: ('index', chars, ('int', i, 'usize'))
    oks = []
    for conds, leaf in paths_of(norm(s.ret)):
        if leaf[0] == 'agg' and leaf[2] == 'Ok':
            oks.append((conds, leaf))
    if not oks:
        ctx.inconclusive(R, 'Square::from_str has no Ok leaf: ' + sh(s.ret, 200))
        return
    acc0, acc1 = set(), set()
    bad_val = None
    want = ('agg', 'core::result::Result', 'Ok', (('0', call(
        'square::Square::make_square',
        call('rank::Rank::from_index', ('bin', 'Sub', ('cast', at(1), 'usize'), ('cast', ('int', ord('1'), 'char'), 'usize'))),
        call('file::File::from_index', ('bin', 'Sub', ('cast', at(0), 'usize'), ('cast', ('int', ord('a'), 'char'), 'usize'))))),))
    for conds, leaf in oks:
        for c, v, allv in conds:
            if match(at(0), c) is not None and v != 'otherwise':
                acc0.add(v)
            if match(at(1), c) is not None and v != 'otherwise':
                acc1.add(v)
        if match(want, leaf) is None:
            bad_val = leaf
    if acc0 == set(range(ord('a'), ord('h') + 1)) and acc1 == set(range(ord('1'), ord('8') + 1)):
        ctx.ok(R, "Square reader accepts exactly 'a'..'h' at character 0 and '1'..'8' at character 1", w)
    else:
        ctx.violation(R, SQ_FROM + ':accepted', 'accepted characters are %s / %s' % (
            ''.join(map(chr, sorted(acc0))), ''.join(map(chr, sorted(acc1)))), w)
    if bad_val is None:
        ctx.ok(R, "Square reader decodes make_square(Rank::from_index(c1 - '1'), File::from_index(c0 - 'a'))", w)
    else:
        ctx.violation(R, SQ_FROM + ':decode', 'decoded value is ' + sh(bad_val, 300), w)
    # promotion letters
    letters = piece_letters(ctx, R)
    if letters is None:
        ctx.inconclusive(R, 'Piece display table not recognised')
        return
    s = summary(ctx, MV_FROM, R)
    if s is None:
        return
    w = where(s.body)
    accepted = {}
    last = ('ok', ('some', call('<core::str::iter::Chars<\'a> as core::iter::traits::iterator::Iterator>::last',
                                call('core::str::<impl str>::chars', ('param', 1)))))
    for conds, leaf in paths_deep(norm(s.ret)):
        if not (leaf[0] == 'agg' and leaf[2] == 'Ok'):
            continue
        v = dict(leaf[3])['0']
        if v[0] != 'call' or v[1] != 'chess_move::ChessMove::new':
            if not any(isinstance(x, tuple) and x and x[0] == 'param' for x in walk(v)) and \
                    not any(isinstance(x, tuple) and x and x[0] == 'mem' for x in walk(v)):
                # an Ok value that does not depend on the text at all (a sentinel such as ChessMove::default()): the parse then
                # renders to something that need not be a prefix of the input
                ctx.violation(R, MV_FROM + ':constant-ok', 'the reader returns Ok(%s), a move that is not read from the text: its rendering is not '
                              'a prefix of what was parsed' % sh(v, 120), w)
            else:
                ctx.inconclusive(R, 'ChessMove::from_str Ok value is not ChessMove::new(..): ' + sh(v, 200))
            return
        promo = v[2][2]
        if promo[0] == 'agg' and promo[2] == 'Some':
            pc = dict(promo[3])['0']
            for c, val, allv in conds:
                if match(last, untry(c)) is not None and val != 'otherwise':
                    accepted[chr(val)] = pc[2] if pc[0] == 'enum' else sh(pc)
    want = {letters[p]: p for p in ('Queen', 'Rook', 'Knight', 'Bishop')}
    if accepted == want:
        ctx.ok(R, 'promotion letters accepted %s = writer letters of the four promotion pieces' % sorted(accepted.items()), w)
    else:
        ctx.violation(R, MV_FROM + ':promotion-letters', 'reader accepts %s, writer emits %s' % (sorted(accepted.items()), sorted(want.items())), w)


def r3(ctx):
    R = 'C13.R3'
    s = summary(ctx, MV_FROM, R)
    if s is None:
        return
    w = where(s.body)
    rng = lambda a, b: ('agg', 'core::ops::range::Range', 'Range', (('start', ('int', a, 'usize')), ('end', ('int', b, 'usize'))))
    sq = lambda a, b: ('ok', call(SQ_FROM, ('ok', ('some', call('core::str::<impl str>::get', ('param', 1), rng(a, b))))))
    n_ok = 0
    bad = []
    LEN5 = ('bin', 'Eq', call('core::str::<impl str>::len', ('param', 1)), ('int', 5, 'usize'))
    for conds, leaf in paths_deep(norm(s.ret)):
        if not (leaf[0] == 'agg' and leaf[2] == 'Ok'):
            continue
        n_ok += 1
        v = untry(dict(leaf[3])['0'])
        if v[0] != 'call' or v[1] != 'chess_move::ChessMove::new' or len(v[2]) < 3:
            bad.append('an Ok value is not built from the text: ' + sh(v, 120))
            continue
        if match(sq(0, 2), v[2][0]) is None:
            bad.append('source is parsed from %s' % sh(v[2][0], 160))
        if match(sq(2, 4), v[2][1]) is None:
            bad.append('destination is parsed from %s' % sh(v[2][1], 160))
        promo = v[2][2]
        # truth of `len == 5` on this path, however the test is spelled (== 5, != 5 with swapped arms)
        is5 = set()
        for c, val, allv in conds:
            for op, neg in (('Eq', False), ('Ne', True)):
                if match((LEN5[0], op, LEN5[2], LEN5[3]), c) is not None:
                    taken_true = (val != 0)
                    is5.add(taken_true != neg)
        if promo[0] == 'agg' and promo[2] == 'Some':
            if is5 != {True}:
                bad.append('a promotion is produced although len != 5 is possible')
        elif promo[0] == 'agg' and promo[2] == 'None':
            if is5 != {False}:
                bad.append('no promotion although len == 5 is possible')
        else:
            bad.append('promotion value not recognised: ' + sh(promo, 80))
    if n_ok == 0:
        ctx.inconclusive(R, 'no Ok leaf in ChessMove::from_str')
    elif bad:
        ctx.violation(R, MV_FROM + ':layout', '; '.join(sorted(set(bad))[:3]), w)
    else:
        ctx.ok(R, 'reader: source = bytes 0..2, destination = bytes 2..4, promotion iff len == 5 from the last character (%d Ok leaves)' % n_ok, w)
    s = summary(ctx, MV_FMT, R)
    if s is None:
        return
    w = where(s.body)
    r = ninl(ctx, s.ret)          # accessors (get_source / get_dest / get_promotion) inlined to the fields
    ok = False
    src, dst = ('field', SELF, 'source'), ('field', SELF, 'dest')
    pr = ('field', ('variant', ('field', SELF, 'promotion'), 'Some'), '0')
    foreign = []
    parts = {}
    for tag in (0, 1):
        def decide(c_, vals, tag=tag):
            if norm(c_) == ('discr', ('field', SELF, 'promotion')):
                return tag if tag in vals else 'otherwise'
            foreign.append(c_)
            return None
        leaves = [l for l in eval_tree(r, decide) if l != ('never',)]
        parts[tag] = [fmt_parts(l) for l in leaves]
    if not foreign and parts[0] == [[('arg', src), ('arg', dst)]] and parts[1] == [[('arg', src), ('arg', dst), ('arg', pr)]]:
        ok = True
    if foreign:
        # a condition other than the presence of a promotion: with it explored both ways every outcome must still be the
        # plain rendering; an outcome that is not means some move value is rendered differently (e.g. a sentinel text)
        okall = parts[0] and parts[1] and all(p_ == [('arg', src), ('arg', dst)] for p_ in parts[0]) and \
            all(p_ == [('arg', src), ('arg', dst), ('arg', pr)] for p_ in parts[1])
        if okall:
            ok = True
        else:
            ctx.violation(R, MV_FMT + ':special-case', 'ChessMove Display renders some moves differently from source+destination(+promotion), depending on %s' %
                          sh(norm(foreign[0]), 120), w)
            return
    if ok:
        ctx.ok(R, 'writer: source, destination, then the promotion piece iff Some (no separators)', w)
    else:
        ctx.violation(R, MV_FMT, 'ChessMove is not rendered as source+destination(+promotion): ' + sh(r, 300), w)


def run(ctx):
    panics.audit(ctx, 'C13.R1', [SQ_FROM, MV_FROM])
    r2(ctx)
    r3(ctx)
