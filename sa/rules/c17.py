"""C17 — colour and left-right symmetry: mirrored positions behave as mirror images.

R1 COLOUR-PARAMETRICITY: inside the symmetric core (call-graph closure of move generation, the
   legality query, status, move application, null move and the cache recomputation) a Color value
   may only be negated, passed on, turned into a table index, or handed to an audited mirror
   primitive. No switch on its discriminant, no comparison with a Color constant, no Color constant,
   no absolute direction (up/down/uup/udown, Rank::up/down) and no Rank constant outside those
   primitives. Every colour-discriminating site of the crate is enumerated; a site inside the core
   that is not in the confirmed table is a violation.
R2 MIRROR-MAPS: every primitive is a mirror pair: rank maps satisfy f(Black) = 7 - f(White);
   forward/backward (and u*) dispatch White->up/Black->down and the reverse; `!` swaps the colours.
R3 MIRROR-TABLES (data, complete): per-colour tables are vertical mirrors of each other; colour-free
   tables are equivariant under the vertical and the horizontal flip.
R4 FILE-PARAMETRICITY: File constants, switches on File and left/right steps occur in the core only
   in the castling code.
R5 RAW-GEOMETRY: no raw word arithmetic on square sets (shifts, +,-,*, BitBoard::new of a computed
   word) in the core outside the audited geometry primitives."""
from .common import *
from ..bb import bb
from .. import tables as T
from ..expr import mk_constref

LEVEL = 'other'
EXHAUSTIVE = True
EXPLANATION = ('Parametricity argument checked on the MIR: inventory of every colour-/direction-/file-specific construct in the '
               'call-graph closure of generation and application, finite maps of the mirror primitives over Color, and a '
               'complete audit of the compiled-in tables for mirror symmetry and equivariance.')
NOT_DECIDED = 'the behavioural equality itself; R1-R4 are the parametricity argument an asymmetric edit would have to break'

COLOR = 'color::Color'
RANK = 'rank::Rank'
FILE = 'file::File'
M = 'magic::'

CORE_ENTRIES = ['movegen::movegen::MoveGen::new_legal',
                '<movegen::movegen::MoveGen as core::iter::traits::iterator::Iterator>::next',
                '<movegen::movegen::MoveGen as core::iter::traits::exact_size::ExactSizeIterator>::len',
                'board::Board::legal', 'board::Board::status', 'board::Board::make_move', 'board::Board::make_move_new',
                'board::Board::null_move', 'board::Board::update_pin_info']

# audited mirror primitives (their bodies may discriminate on colour; R2 checks them)
PRIMITIVES = {
    '<color::Color as core::ops::bit::Not>::not', 'color::Color::to_index', 'color::Color::to_my_backrank',
    'color::Color::to_their_backrank', 'color::Color::to_second_rank', 'color::Color::to_fourth_rank',
    'color::Color::to_seventh_rank', 'square::Square::forward', 'square::Square::backward',
    'square::Square::uforward', 'square::Square::ubackward',
}
# direction helpers: absolute directions; allowed only inside the primitives and each other
VERTICAL = {'square::Square::up', 'square::Square::down', 'square::Square::uup', 'square::Square::udown',
            'rank::Rank::up', 'rank::Rank::down'}
HORIZONTAL = {'square::Square::left', 'square::Square::right', 'square::Square::uleft', 'square::Square::uright',
              'file::File::left', 'file::File::right'}
# helper bodies that implement the geometry itself (not part of generation/application logic)
GEOMETRY = VERTICAL | HORIZONTAL | {'rank::Rank::from_index', 'file::File::from_index', 'rank::Rank::to_index', 'file::File::to_index',
                                    'square::Square::get_rank', 'square::Square::get_file', 'square::Square::make_square'}

# confirmed sites inside the core: (function, kind) -> reason
ALLOWED = {
    ('movegen::piece_type::<impl PieceType for KingType>::legals', 'horizontal-step'):
        'castling: transit and destination squares are reached with uleft/uright (left-right symmetry is claimed only without castling rights)',
    ('<movegen::piece_type::KingType as movegen::piece_type::PieceType>::legals', 'horizontal-step'):
        'castling: transit and destination squares are reached with uleft/uright (left-right symmetry is claimed only without castling rights)',
}


def sites_of(body, facts):
    """colour / direction / file specific constructs in a body: list of (kind, line, detail)"""
    out = []
    locs = body.locals

    def ty_of_place(p):
        t = locs[p['l']]['ty']
        for e in p['p']:
            if e == '*':
                t = t.lstrip('&')
                if t.startswith('mut '):
                    t = t[4:]
            elif isinstance(e, dict) and 'ty' in e:
                t = e['ty']
            elif isinstance(e, dict) and ('i' in e or 'ci' in e):
                if t.startswith('[') and ';' in t:
                    t = t[1:-1].rsplit(';', 1)[0].strip()
        return t

    def const_ops(o, line):
        k = o.get('k') if isinstance(o, dict) else None
        if k:
            ty = k.get('ty', '').lstrip('&')
            if ty == COLOR:
                out.append(('colour-constant', line, str(k.get('int'))))
            if ty == RANK:
                out.append(('rank-constant', line, str(k.get('int'))))
            if ty == FILE:
                out.append(('file-constant', line, str(k.get('int'))))
            if 'ref_to' in k and k['ref_to'] in (COLOR, RANK, FILE):
                kind = {COLOR: 'colour-constant', RANK: 'rank-constant', FILE: 'file-constant'}[k['ref_to']]
                out.append((kind, line, 'promoted'))

    for bi in sorted(body.reachable()):
        b = body.blocks[bi]
        for st in b['stmts']:
            if st['k'] != 'assign':
                continue
            rv = st['rv']
            if rv['rv'] == 'discr':
                t = ty_of_place(rv['pl']).lstrip('&')
                if t == COLOR:
                    out.append(('colour-switch', st['line'], 'discriminant of a Color'))
                if t == FILE:
                    out.append(('file-switch', st['line'], 'discriminant of a File'))
                if t == RANK:
                    out.append(('rank-switch', st['line'], 'discriminant of a Rank'))
            if rv['rv'] == 'agg' and rv.get('kind') == 'adt':
                if rv['adt'] == COLOR:
                    out.append(('colour-constant', st['line'], rv['variant']))
                if rv['adt'] == RANK:
                    out.append(('rank-constant', st['line'], rv['variant']))
                if rv['adt'] == FILE:
                    out.append(('file-constant', st['line'], rv['variant']))
            for key in ('op', 'a', 'b'):
                if key in rv and isinstance(rv[key], dict):
                    const_ops(rv[key], st['line'])
            for o in rv.get('ops', []):
                const_ops(o, st['line'])
        t = b['term']
        if t['k'] == 'call':
            c = t.get('callee') or ''
            for a in t['args']:
                const_ops(a, t['line'])
            if c in ('<color::Color as core::cmp::PartialEq>::eq', '<color::Color as core::cmp::PartialEq>::ne') or \
                    (c == 'core::cmp::PartialEq::ne' and t.get('gargs') and 'color::Color' == t['gargs'][0]):
                out.append(('colour-compare', t['line'], c))
            if c in VERTICAL:
                out.append(('vertical-step', t['line'], c))
            if c in HORIZONTAL:
                out.append(('horizontal-step', t['line'], c))
        if t['k'] == 'switch':
            const_ops(t['discr'], t['line'])
    # promoted constants of this body
    for pk, pb in facts.bodies.items():
        if pk.startswith(body.key + '::{promoted#'):
            for bi in pb.reachable():
                for st in pb.blocks[bi]['stmts']:
                    if st['k'] == 'assign' and st['rv']['rv'] == 'agg' and st['rv'].get('kind') == 'adt':
                        if st['rv']['adt'] == COLOR:
                            out.append(('colour-constant', pb.lo, st['rv']['variant'] + ' (promoted)'))
                        if st['rv']['adt'] == RANK:
                            out.append(('rank-constant', pb.lo, st['rv']['variant'] + ' (promoted)'))
                        if st['rv']['adt'] == FILE:
                            out.append(('file-constant', pb.lo, st['rv']['variant'] + ' (promoted)'))
    return out


def core_set(ctx):
    eff = ctx.eff()
    f = ctx.facts()
    core = set()
    for e in CORE_ENTRIES:
        if e in f.bodies:
            core |= eff.reach(e)
    out = set()
    for k in core:
        out.add(k)
        for cl in f.closures_of(k):
            out.add(cl.key)
    return out


def r14(ctx):
    f = ctx.facts()
    missing = [e for e in CORE_ENTRIES if e not in f.bodies]
    for e in missing:
        ctx.inconclusive('C17.R1', 'core entry not found: ' + e)
    core = core_set(ctx)
    derived = {it for imp in f.impls if imp.get('derived') for it in imp['items']}
    nsites = 0
    for key in sorted(f.bodies):
        if '::{promoted#' in key or key in derived:
            continue
        body = f.bodies[key]
        ss = sites_of(body, f)
        if not ss:
            continue
        in_core = key in core
        parent = key.split('::{closure#')[0]
        is_prim = parent in PRIMITIVES or parent in GEOMETRY
        for kind, line, detail in ss:
            nsites += 1
            rule = 'C17.R4' if kind in ('file-constant', 'file-switch', 'horizontal-step') else 'C17.R1'
            if not in_core:
                ctx.instance(rule, 'outside the core (labelling / validation / text): %s in %s: %s' % (kind, key, detail), where(body, line))
                continue
            if is_prim:
                ctx.instance(rule, 'inside audited primitive %s: %s' % (key, kind), where(body, line))
                continue
            if (parent, kind) in ALLOWED:
                ctx.ok(rule, 'confirmed site %s in %s: %s' % (kind, key, ALLOWED[(parent, kind)]), where(body, line))
                continue
            if kind in ('file-constant', 'file-switch') and parent in ('board::Board::make_move', 'board::Board::make_move_new',
                                                                       'movegen::piece_type::<impl PieceType for KingType>::legals'):
                ctx.ok(rule, 'castling code: %s in %s' % (kind, key), where(body, line))
                continue
            what = {'colour-switch': 'branches on the colour', 'colour-compare': 'compares a colour with another colour value',
                    'colour-constant': 'uses a Color constant', 'vertical-step': 'steps in an absolute vertical direction',
                    'rank-constant': 'uses a Rank constant', 'rank-switch': 'branches on a Rank',
                    'file-constant': 'uses a File constant', 'file-switch': 'branches on a File',
                    'horizontal-step': 'steps in an absolute horizontal direction'}[kind]
            ctx.violation(rule, '%s:%s' % (key, kind), '%s %s (%s): generation/application must be colour- and side-neutral outside the '
                          'mirror primitives' % (key, what, detail), where(body, line))
    ctx.instance('C17.R1', 'symmetric core: %d functions; %d colour/direction/file specific sites in the crate enumerated' % (len(core), nsites), '')
    ctx.floor('C17.R1', 'functions in the symmetric core', len(core), 30)
    ctx.ok('C17.R1', 'no unconfirmed colour-, rank- or direction-specific construct inside the symmetric core', '')
    ctx.ok('C17.R4', 'no unconfirmed file-specific construct inside the symmetric core', '')


ARITH_PRIMITIVE_FILES = ('src/bitboard.rs', 'src/magic.rs', 'src/square.rs', 'src/rank.rs', 'src/file.rs', 'src/color.rs', 'src/piece.rs',
                         'src/castle_rights.rs', 'src/zobrist.rs')


def r5(ctx):
    """R5 RAW-GEOMETRY: inside the symmetric core, square sets are combined only through the audited set algebra and table
    accessors. Raw word arithmetic on a bitboard (shifts, add/sub/mul, BitBoard::new / BitBoard(..) of a computed word) encodes an
    absolute direction or wrap-around and is not mirror-equivariant; it is allowed only in the geometry primitives
    (bitboard.rs, magic.rs, square.rs, rank.rs, file.rs ...), where a positive control must find it."""
    R = 'C17.R5'
    f = ctx.facts()
    core = core_set(ctx)
    derived = {it for imp in f.impls if imp.get('derived') for it in imp['items']}
    control = 0
    for key in sorted(core):
        if '::{promoted#' in key or key in derived:
            continue
        body = f.bodies[key]
        prim = body.file in ARITH_PRIMITIVE_FILES
        for bi in sorted(body.reachable()):
            b = body.blocks[bi]
            for st in b['stmts']:
                if st['k'] != 'assign':
                    continue
                rv = st['rv']
                bad = None
                if rv['rv'] in ('bin', 'checked_bin') and rv.get('bop', '').replace('WithOverflow', '').replace('Unchecked', '') in ('Shl', 'Shr', 'Mul', 'Add', 'Sub'):
                    # operands of type u64 only (usize counters and indices are not square sets)
                    tys = []
                    for o in (rv['a'], rv['b']):
                        pl = o.get('c') or o.get('m')
                        if pl is not None and not pl['p']:
                            tys.append(body.locals[pl['l']]['ty'])
                        elif pl is not None:
                            last = pl['p'][-1]
                            tys.append(last.get('ty', '') if isinstance(last, dict) else '')
                        elif 'k' in o:
                            tys.append(o['k'].get('ty', ''))
                    if tys and tys[0] == 'u64':
                        bad = 'u64 %s' % rv['bop']
                if rv['rv'] == 'agg' and rv.get('adt') == 'bitboard::BitBoard':
                    ops = rv.get('ops', [])
                    if ops and 'k' not in ops[0]:
                        bad = 'BitBoard(computed word)'
                if bad:
                    if prim:
                        control += 1
                    else:
                        ctx.violation(R, '%s:%s' % (key, bad), '%s performs raw word arithmetic on a square set (%s): this encodes an absolute direction / '
                                      'wrap-around that the mirror maps do not preserve; use the table accessors and set algebra' % (key, bad), where(body, st['line']))
            t = b['term']
            if t['k'] == 'call' and not prim and (t.get('callee') or '') in ('bitboard::BitBoard::new',):
                a0 = t['args'][0] if t['args'] else {}
                if 'k' not in a0:
                    ctx.violation(R, '%s:BitBoard::new' % key, '%s builds a BitBoard from a computed word (BitBoard::new): raw geometry outside the audited primitives' % key,
                                  where(body, t['line']))
    if control == 0:
        ctx.inconclusive(R, 'positive control failed: no raw word arithmetic found even inside the geometry primitives')
    else:
        ctx.ok(R, 'raw word arithmetic on square sets occurs only inside the audited geometry primitives (%d sites there; positive control)' % control, '')


def r2(ctx):
    R = 'C17.R2'
    f = ctx.facts()
    il = inliner(ctx)
    ranks = [v['name'] for v in sorted(f.adts[RANK]['variants'], key=lambda v: int(v['discr']))]
    cols = [mk_constref(ENUM(COLOR, 'White')), mk_constref(ENUM(COLOR, 'Black'))]
    for name in ('to_my_backrank', 'to_their_backrank', 'to_second_rank', 'to_fourth_rank', 'to_seventh_rank'):
        key = 'color::Color::' + name
        fm = il.finmap(key, [cols])
        if fm is None:
            ctx.inconclusive(R, 'anchor not found: ' + key)
            continue
        w_, b_ = norm(fm[(cols[0],)]), norm(fm[(cols[1],)])
        if w_[0] == 'enum' and b_[0] == 'enum' and ranks.index(b_[2]) == 7 - ranks.index(w_[2]):
            ctx.ok(R, '%s: White -> %s, Black -> %s (mirror ranks)' % (key, w_[2], b_[2]), where(f.body(key)))
        else:
            ctx.violation(R, key, '%s is not a mirror pair: White -> %s, Black -> %s' % (name, sh(w_, 40), sh(b_, 40)), where(f.body(key)))
    expected = {'to_my_backrank': 'First', 'to_their_backrank': 'Eighth', 'to_second_rank': 'Second', 'to_fourth_rank': 'Fourth',
                'to_seventh_rank': 'Seventh'}
    for name, wr in expected.items():
        key = 'color::Color::' + name
        fm = il.finmap(key, [cols[:1]])
        if fm is not None:
            v = norm(fm[(cols[0],)])
            if v == ENUM(RANK, wr):
                ctx.ok(R, '%s(White) = %s' % (key, wr), where(f.body(key)))
            else:
                ctx.violation(R, key + ':white', '%s(White) = %s, expected %s' % (name, sh(v, 40), wr), where(f.body(key)))
    key = '<color::Color as core::ops::bit::Not>::not'
    fm = il.finmap(key, [[ENUM(COLOR, 'White'), ENUM(COLOR, 'Black')]])
    if fm is not None:
        if norm(fm[(ENUM(COLOR, 'White'),)]) == ENUM(COLOR, 'Black') and norm(fm[(ENUM(COLOR, 'Black'),)]) == ENUM(COLOR, 'White'):
            ctx.ok(R, '!White = Black, !Black = White', where(f.body(key)))
        else:
            ctx.violation(R, key, 'colour negation is not the swap', where(f.body(key)))
    # forward/backward dispatch
    for key, wdir, bdir in (('square::Square::forward', 'up', 'down'), ('square::Square::backward', 'down', 'up'),
                            ('square::Square::uforward', 'uup', 'udown'), ('square::Square::ubackward', 'udown', 'uup')):
        s = ctx.an().summary(key)
        if s is None:
            ctx.inconclusive(R, 'anchor not found: ' + key)
            continue
        r = norm(s.ret)
        wd = f.enum_discr(COLOR, 'White')
        bd = f.enum_discr(COLOR, 'Black')
        from ..treeq import TreeEq, strip_calls, C, show_env
        te = TreeEq(f, canon=lambda e: strip_calls(norm(e)))
        want = ('ite', ('discr', ('param', 2)), ((wd, C('square::Square::' + wdir, ('param', 1))), (bd, C('square::Square::' + bdir, ('param', 1)))))
        eq, why = te.equal(want, r)
        if eq is True:
            ctx.ok(R, '%s: White -> %s, Black -> %s' % (key, wdir, bdir), where(s.body))
        elif eq is False:
            ctx.violation(R, key, '%s does not dispatch White -> %s / Black -> %s: when %s it yields %s' % (
                key, wdir, bdir, show_env(why[0], sh), sh(why[2], 120)), where(s.body))
        else:
            ctx.inconclusive(R, '%s: %s' % (key, why))


def r3(ctx):
    R = 'C17.R3'
    t = T.Tables(ctx.facts())
    fv, fh = T.flip_v, T.flip_h

    def check(name, n, pred, desc):
        ctx.bulk(R, n, n if pred is True else 0)
        if pred is True:
            ctx.instance(R, '%s: %s' % (name, desc), t.where(name))
        else:
            ctx.violation(R, name, '%s is not %s: %s' % (name, desc, pred), t.where(name))

    def first_bad(pairs):
        for label, a, b in pairs:
            if a != b:
                return '%s: %#x vs %#x' % (label, a, b)
        return True

    for name in ('PAWN_ATTACKS', 'PAWN_MOVES'):
        d = t.u64s(M + name)
        if d is None or len(d) != 128:
            ctx.inconclusive(R, 'table not found: ' + name)
            continue
        check(M + name, 64, first_bad(('sq %d' % s, d[64 + (s ^ 56)], fv(d[s])) for s in range(64)),
              'Black[sq^56] = vertical flip of White[sq]')
        check(M + name + ':h', 128, first_bad(('c%d sq %d' % (c, s), d[64 * c + (s ^ 7)], fh(d[64 * c + s])) for c in range(2) for s in range(64)),
              'equivariant under the horizontal flip')
    for name in ('KINGSIDE_CASTLE_SQUARES', 'QUEENSIDE_CASTLE_SQUARES'):
        d = t.u64s(M + name)
        if d is None or len(d) != 2:
            ctx.inconclusive(R, 'table not found: ' + name)
            continue
        check(M + name, 1, first_bad([('Black vs White', d[1], fv(d[0]))]), 'Black = vertical flip of White')
    cps = t.u8s('castle_rights::CASTLES_PER_SQUARE')
    if cps is None or len(cps) != 128:
        ctx.inconclusive(R, 'table not found: CASTLES_PER_SQUARE')
    else:
        check('castle_rights::CASTLES_PER_SQUARE', 64, first_bad(('sq %d' % s, cps[64 + (s ^ 56)], cps[s]) for s in range(64)),
              'Black[sq^56] = White[sq]')
    for name in ('KING_MOVES', 'KNIGHT_MOVES'):
        d = t.u64s(M + name)
        if d is None or len(d) != 64:
            ctx.inconclusive(R, 'table not found: ' + name)
            continue
        check(M + name, 128, first_bad([('v sq %d' % s, d[s ^ 56], fv(d[s])) for s in range(64)] +
                                       [('h sq %d' % s, d[s ^ 7], fh(d[s])) for s in range(64)]), 'equivariant under both flips')
    d = t.u64s(M + 'RAYS')
    if d is not None and len(d) == 128:
        check(M + 'RAYS', 256, first_bad([('v k%d sq %d' % (k, s), d[64 * k + (s ^ 56)], fv(d[64 * k + s])) for k in range(2) for s in range(64)] +
                                         [('h k%d sq %d' % (k, s), d[64 * k + (s ^ 7)], fh(d[64 * k + s])) for k in range(2) for s in range(64)]),
              'equivariant under both flips')
    for name in ('BETWEEN', 'LINE'):
        d = t.u64s(M + name)
        if d is None or len(d) != 4096:
            ctx.inconclusive(R, 'table not found: ' + name)
            continue
        check(M + name, 8192, first_bad([('v [%d][%d]' % (a, b), d[(a ^ 56) * 64 + (b ^ 56)], fv(d[a * 64 + b])) for a in range(64) for b in range(64)] +
                                        [('h [%d][%d]' % (a, b), d[(a ^ 7) * 64 + (b ^ 7)], fh(d[a * 64 + b])) for a in range(64) for b in range(64)]),
              'equivariant under both flips')
    for name, vmap, hmap in (('RANKS', lambda i: 7 - i, lambda i: i), ('FILES', lambda i: i, lambda i: 7 - i),
                             ('ADJACENT_FILES', lambda i: i, lambda i: 7 - i)):
        d = t.u64s(M + name)
        if d is None or len(d) != 8:
            ctx.inconclusive(R, 'table not found: ' + name)
            continue
        check(M + name, 16, first_bad([('v %d' % i, d[vmap(i)], fv(d[i])) for i in range(8)] + [('h %d' % i, d[hmap(i)], fh(d[i])) for i in range(8)]),
              'permuted consistently by both flips')
    for name in ('CASTLE_MOVES', 'PAWN_SOURCE_DOUBLE_MOVES', 'PAWN_DEST_DOUBLE_MOVES', 'EDGES'):
        v = t.scalar(M + name)
        if v is None:
            ctx.inconclusive(R, 'constant not found: ' + name)
            continue
        check(M + name, 1, first_bad([('value', fv(v), v)]), 'invariant under the vertical flip')
    ctx.floor(R, 'tables audited for symmetry', len(ctx.instances.get(R, [])), 17)


ACCUM = ('bitxor_assign', 'bitor_assign', 'bitand_assign', 'add_assign', 'push_unchecked', 'push', 'deref_mut')


def r6(ctx):
    """R6 ORDER-INDEPENDENCE.  A square set is iterated from a1 towards h8 -- an order that is neither colour- nor
    left-right symmetric.  Inside the symmetric core a loop over a square set may therefore carry state from one
    square to the next only in commutative accumulators (^=, |=, &=, +=, pushes onto the move list), and that state
    may not be read by the loop body: no branch condition and no other call argument inside the loop may depend on a
    value carried over from an earlier square."""
    R = 'C17.R6'
    f = ctx.facts()
    an = ctx.an()
    n = 0
    for key in sorted(core_set(ctx)):
        body = f.bodies.get(key)
        if body is None or not any((t.get('callee') or '').startswith('<bitboard::BitBoard as core::iter::traits::iterator::Iterator>::next')
                                   for _, t in body.calls()):
            continue
        s = an.summary(key)
        if s is None:
            continue
        for l in for_loops(s):
            if not (l['next']['callee'] or '').startswith('<bitboard::BitBoard as core::iter::traits::iterator::Iterator>::next'):
                continue
            n += 1
            h = l['header']
            it = l['iter_root']

            def carried(e, skip_outer=False):
                out = []
                for x in walk(e):
                    if isinstance(x, tuple) and len(x) == 3 and x[0] == 'loop' and x[1] == h:
                        r = x[2]
                        root = r[0] if (isinstance(r, tuple) and r and isinstance(r[0], tuple)) else r
                        if root != it:
                            out.append(x)
                return out
            bad = []

            def canon(e):
                try:
                    return bb(e, an)       # accessors inlined, field reads resolved against partial updates
                except Exception:
                    return norm(e)
            for b in sorted(l['blocks']):
                c = s.switches.get(b)
                cr = carried(canon(c)) if c is not None else []
                if cr:
                    bad.append(('branch condition', s.body.blocks[b]['term'].get('line'), cr[0]))
            for c in s.calls:
                if c['blk'] not in l['blocks'] or not c['callee']:
                    continue
                acc = c['callee'].split('::')[-1] in ACCUM
                if not acc and c.get('result') is not None:
                    # what the call can observe: its result with accessors inlined (`combined(&board)` reads one field)
                    cr = carried(canon(c['result']))
                    if cr:
                        bad.append(('the call of %s' % c['callee'].split('::')[-1], c['line'], cr[0]))
                    continue
                for i, a in enumerate(c['argvals'] or ()):
                    if acc and i == 0:
                        continue            # the accumulator itself
                    cr = carried(canon(a)) if a is not None else []
                    if cr:
                        bad.append(('argument %d of %s' % (i, c['callee'].split('::')[-1]), c['line'], cr[0]))
            w = where(s.body, l['next']['line'])
            # leaving the loop before the set is exhausted is order-independent only for a pure search (`return true` on the
            # first hit): once the loop accumulates (checkers ^= .., pinned ^= .., pushes), WHICH squares were accumulated
            # before the exit depends on the a1..h8 order
            early = sorted({a for a, _ in loop_exits(s, l) if a not in ctrl_blocks(s, l)})
            accs = [c for c in s.calls if c['blk'] in l['blocks'] and c['callee'] and c['callee'].split('::')[-1] in ACCUM]
            if early and accs:
                ctx.violation(R, key + ':early-exit', 'the loop over a square set accumulates (%s) and is left before the set is exhausted '
                              '(exit from block(s) %s): what was accumulated depends on which squares precede the exit in a1..h8 order, '
                              'which mirroring reverses' % (accs[0]['callee'].split('::')[-1], early), w)
            if bad:
                what, line, x = bad[0]
                nm = s.body.locals[x[2][1]].get('name') if isinstance(x[2], tuple) and x[2] and x[2][0] == 'l' else None
                ctx.violation(R, key + ':carried-state', 'the loop over a square set reads state carried over from the squares visited before '
                              '(%s at line %s depends on %s%s): the result for a square depends on which squares precede it in a1..h8 order, '
                              'which mirroring reverses' % (what, line, sh(x, 60), ' = `%s`' % nm if nm else ''), w)
            else:
                ctx.ok(R, '%s: loop over a square set carries state only in accumulators it never reads' % key.split('::')[-2 if key.endswith('legals') else -1], w)
    ctx.floor(R, 'square-set loops in the symmetric core', n, 6)


def run(ctx):
    r14(ctx)
    r5(ctx)
    r2(ctx)
    r3(ctx)
    r6(ctx)
