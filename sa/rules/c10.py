"""C10 — game protocol: moves accepted iff legal and game open; results final and correct.

R1 GUARD-FIRST: in each of the five mutators every push onto the action log lies on a path where
   result().is_some() was evaluated on the receiver and was false (declare_draw: through
   can_declare_draw, whose `true` returns are all behind that guard).
R2 PUSH-IFF-TRUE: on every path the returned constant is true iff exactly one push happened; at
   most one push happens.
R3 LOG-OWNERSHIP: Game's fields are private; start_pos is written only in constructors; `moves`
   is borrowed mutably only by the mutators' pushes; actions() returns a shared reference.
R4 RESULT-TABLE: result() = board status first (Checkmate -> the side NOT to move wins, Stalemate),
   else by the last action: AcceptDraw -> DrawAccepted, DeclareDraw -> DrawDeclared, Resign(c) -> c
   resigns, otherwise None. With R1: once Some, no later push => the result is final.
R5 REPLAY: current_position folds make_move_new over exactly the MakeMove actions in log order from
   start_pos; side_to_move is the parity of their count plus the start side.
R6 LEGALITY-GATE: the MakeMove(m) push is control dependent on current_position().legal(m).
R7 ACCEPT-CONDITIONS: the AcceptDraw push requires `last is an offer (either colour)` or `the action
   before last is an offer by the side not to move` (then, by R4, the last action is a move).
R8: each mutator pushes its own variant carrying its own parameter."""
from .common import *
from ..bb import bb, cnot

LEVEL = 'other'
EXHAUSTIVE = True
EXPLANATION = ('Path rules over the MIR of src/game.rs: decision trees of every mutator joined with the final state of the '
               'action log (push iff true, guard first), control dependence of each push, writer inventory of the private '
               'fields, predicate abstraction of result() over (status, side, last action), loop shape of the replay.')
NOT_DECIDED = 'legal() itself is C01; the rules cover every interleaving because they constrain every path of every mutator'

G = 'game::Game'
SELF = ('mem', ('p', 1))
MOVES = ('field', SELF, 'moves')
ACT = 'game::Action'
PUSH = 'alloc::vec::Vec::<T, A>::push'
MUTATORS = {
    'game::Game::make_move': ('MakeMove', True),
    'game::Game::offer_draw': ('OfferDraw', True),
    'game::Game::accept_draw': ('AcceptDraw', False),
    'game::Game::resign': ('Resign', True),
    'game::Game::declare_draw': ('DeclareDraw', False),
}
RESULT = call('game::Game::result', ('param', 1))
RESULT_SOME = call('core::option::Option::<T>::is_some', RESULT)
RESULT_NONE = call('core::option::Option::<T>::is_none', RESULT)


_CTX = [None]


def game_open(c, vals):
    """does taking the switch outcome `vals` (list of case values) on condition c establish that result() is None?"""
    if c is None:
        return False
    c = norm(c)
    if _CTX[0] is not None and any(isinstance(x, tuple) and x and x[0] == 'call' and x[1].startswith('game::Game::') and
                                   x[1] not in ('game::Game::result',) for x in walk(c)):
        c = inline_private(_CTX[0], c)       # `self.is_over()` and similar private wrappers
    falsey = list(vals) == [0]
    truthy = 0 not in vals and len(vals) >= 1
    if match(RESULT_SOME, c) is not None:
        return falsey
    if match(RESULT_NONE, c) is not None:
        return truthy
    if match(('discr', RESULT), c) is not None:       # match self.result() { None => .. }   (None = 0)
        return falsey
    return False
CAN = call('game::Game::can_declare_draw', ('param', 1))


def paths_joint(ret, fin):
    """(conds, ret leaf, [log leaf]) for every consistent joint path of the return value and the action log.
    A return value that is itself a condition (`let ok = ..; if ok { push } ok`) is split into its two outcomes, so the
    same condition decides the log."""
    def boolify(e):
        if isinstance(e, tuple) and e and e[0] == 'ite':
            return ('ite', e[1], tuple((v, boolify(x)) for v, x in e[2]))
        if isinstance(e, tuple) and e and e[0] in ('int', 'never'):
            return e
        return ('ite', e, ((0, ('int', 0, 'bool')), ('otherwise', ('int', 1, 'bool'))))
    out = []
    for conds, leaf in paths_deep(('tuple', (boolify(ret), fin)), limit=20000):
        r_, lg = leaf[1]
        out.append((conds, r_, [lg]))
    return out


def cdd_gate(ctx, R):
    """can_declare_draw: every `true` return is behind the guard "the game has no result" (also C11.R6)"""
    s = summary(ctx, 'game::Game::can_declare_draw', R)
    if s is not None:
        body = s.body
        bad = 0
        trues = 0
        for st in return_sites(s):
            if norm(st['value']) != ('int', 0, 'bool'):       # `return true` or a boolean tail expression that may be true
                trues += 1
                gs = guards(s, st['blk'])
                if not any(game_open(g['cond'], g['vals']) for g in gs):
                    bad += 1
        if trues == 0:
            ctx.inconclusive(R, 'can_declare_draw: no `return true` found')
        elif bad:
            ctx.violation(R, 'game::Game::can_declare_draw:unguarded-true', 'can_declare_draw can return true although the game has a result', where(body))
        else:
            ctx.ok(R, 'can_declare_draw: all %d `true` returns are behind `result().is_some() == false`' % trues, where(body))


def r12(ctx):
    n = 0
    for key, (variant, has_arg) in MUTATORS.items():
        s = summary(ctx, key, 'C10.R1')
        if s is None:
            continue
        n += 1
        w = where(s.body)
        ret = norm(s.ret)
        fin_obj = s.final.get(('p', 1), SELF)
        if any(isinstance(x, tuple) and x and x[0] == 'after' and x[2].startswith('game::Game::') for x in walk(fin_obj)):
            # the push happens inside a private helper (`fn push_unless_over(&mut self, a) -> bool`): apply its effect
            try:
                priv = lambda k: not (ctx.facts().fns.get(k) or {}).get('pub', True)
                r0 = norm(s.ret)
                for x in walk(fin_obj):
                    if isinstance(x, tuple) and x and x[0] == 'after' and priv(x[2]) and r0[0] == 'call' and r0[1] == x[2]:
                        rv = inliner(ctx).apply_ret(x)
                        if rv is not None:
                            ret = norm(inliner(ctx).fold(rv))
                        break
                fin_obj = inliner(ctx).inline(fin_obj, only=priv)
            except Exception:
                pass
        fin = norm(mk_field_safe(fin_obj, 'moves'))
        pushes = [c for c in expanded_calls(ctx, s, lambda c_: c_['callee'] == PUSH, allow_conditional=True) if c['callee'] is not None]
        ok1 = ok2 = True
        npush_paths = 0
        for conds, leaf, logs in paths_joint(ret, fin):
            counts = set()
            for lg in logs:
                k, base = count_after(lg, '::push')
                if base != MOVES:
                    counts.add('?')
                else:
                    counts.add(k)
            if len(counts) != 1 or '?' in counts:
                ctx.inconclusive('C10.R2', '%s: action log after the call not determined on a path: %s' % (key, sorted(map(str, counts))))
                ok2 = False
                continue
            k = counts.pop()
            tv = leaf == ('int', 1, 'bool')
            fv = leaf == ('int', 0, 'bool')
            if not (tv or fv):
                ctx.inconclusive('C10.R2', '%s returns a non-constant: %s' % (key, sh(leaf, 100)))
                ok2 = False
                continue
            if k > 1 or (tv and k != 1) or (fv and k != 0):
                ok2 = False
                ctx.violation('C10.R2', '%s:%s:%d' % (key, 'true' if tv else 'false', k),
                              '%s returns %s on a path with %d push(es) onto the log' % (key, 'true' if tv else 'false', k), w)
            if k >= 1:
                npush_paths += 1
                guarded = False
                for c, v, allv in conds:
                    if game_open(c, [v]):
                        guarded = True
                    if key == 'game::Game::declare_draw' and match(CAN, c) is not None and v == 'otherwise':
                        guarded = True
                if not guarded:
                    ok1 = False
                    ctx.violation('C10.R1', key + ':unguarded-push', 'a push in %s is reachable without `result().is_some()` '
                                  'having been false' % key, where(s.body, pushes[0]['line'] if pushes else None))
        if not pushes or npush_paths == 0:
            ctx.violation('C10.R2', key + ':no-push', '%s never records its action' % key, w)
            continue
        if ok1:
            ctx.ok('C10.R1', '%s: every push is behind `result().is_some() == false`%s' % (
                key, ' (via can_declare_draw)' if key.endswith('declare_draw') else ''), w)
        if ok2:
            ctx.ok('C10.R2', '%s: returns true iff exactly one push happened; at most one push per call' % key, w)
        # R8 variant and parameter
        for c in pushes:
            v = norm(c['argvals'][1])
            want_arg = (('0', ('param', 2)),) if has_arg else ()
            if v == ('agg', ACT, variant, want_arg):
                ctx.ok('C10.R8', '%s pushes Action::%s%s' % (key, variant, '(its parameter)' if has_arg else ''), where(s.body, c['line']))
            else:
                ctx.violation('C10.R8', key + ':variant', '%s pushes %s, expected Action::%s%s' % (
                    key, sh(v, 100), variant, '(parameter)' if has_arg else ''), where(s.body, c['line']))
    cdd_gate(ctx, 'C10.R1')
    ctx.floor('C10.R1', 'Game mutators', n, 5)


def mk_field_safe(v, name):
    from ..expr import mk_field
    return mk_field(v, name, None)


def r3(ctx):
    R = 'C10.R3'
    f = ctx.facts()
    adt = f.adts.get(G)
    if adt is None:
        ctx.inconclusive(R, 'ADT game::Game not found')
        return
    for fl in adt['variants'][0]['fields']:
        if fl['pub']:
            ctx.violation(R, 'pub:' + fl['name'], 'Game.%s is public: the log can be edited behind the protocol' % fl['name'],
                          '%s:%s' % (adt['file'], adt['lo']))
        else:
            ctx.ok(R, 'Game.%s is private' % fl['name'], '%s:%s' % (adt['file'], adt['lo']))
    eff = ctx.eff()
    # direct (field-wise) writers, including &mut borrows
    for fld, allowed in (('start_pos', set()), ('moves', set(MUTATORS))):
        ws = {k for k in eff.direct if (G, fld) in eff.direct[k] and '::{' not in k}
        extra = ws - allowed
        # a private helper whose only callers are allowed writers acts on their behalf (its pushes are attributed to them
        # by R1/R2, which look through it)
        changed = True
        while changed and fld == 'moves':
            changed = False
            for k in sorted(extra):
                fn_ = f.fns.get(k) or {}
                callers = {c_ for c_, b_ in f.bodies.items() if '::{' not in c_ and any(t_.get('callee') == k for _, t_ in b_.calls())}
                if not fn_.get('pub') and callers and callers <= (allowed | (ws - extra)):
                    extra.discard(k)
                    changed = True
        if extra:
            ctx.violation(R, 'writers:%s:%s' % (fld, ','.join(sorted(extra))), 'Game.%s is written or mutably borrowed by %s' % (
                fld, sorted(extra)), where(f.body(sorted(extra)[0])))
        else:
            ctx.ok(R, 'Game.%s: mutable access only from %s' % (fld, sorted(ws) or 'constructors (literals)'), '')
    # in the mutators the only use of &mut self.moves is the push
    for key in MUTATORS:
        s = ctx.an().summary(key)
        if s is None:
            continue
        for c in s.calls:
            for a, o in zip(c['args'], c['term']['args']):
                if a[0] == 'ref' and a[1] == ('p', 1) and a[2][:1] == (('f', 'moves'),) and c['callee'] != PUSH:
                    ctx.violation(R, '%s:mutuse:%s' % (key, c['callee']), 'the log is lent mutably to %s in %s' % (c['callee'], key),
                                  where(s.body, c['line']))
    # Game literals only in constructors
    lits = set()
    for key, body in f.bodies.items():
        for bi in body.reachable():
            for st in body.blocks[bi]['stmts']:
                if st['k'] == 'assign' and st['rv']['rv'] == 'agg' and st['rv'].get('adt') == G:
                    lits.add(key)
    derived = {it for imp in f.impls if imp.get('derived') for it in imp['items']}
    lits = {k for k in lits if k not in derived}
    # a constructor = a function that builds a Game without being handed one; every Game it builds starts with an empty log
    def takes_game(k):
        fn_ = f.fns.get(k) or {}
        return any('game::Game' in str(t) for t in fn_.get('inputs', []))
    non_ctor = sorted(k for k in lits if takes_game(k))
    if non_ctor:
        ctx.violation(R, 'literals:' + ','.join(non_ctor), 'a Game value is built from parts by a function that already holds a Game (not a constructor): %s' % non_ctor, '')
    elif not lits:
        ctx.inconclusive(R, 'no Game literal found')
    else:
        ctx.ok(R, 'Game literals only in constructors %s' % sorted(lits), '')
    for k in sorted(lits - set(non_ctor)):
        s = ctx.an().summary(k)
        aggs = [x for x in walk(norm(s.ret)) if isinstance(x, tuple) and x and x[0] == 'agg' and x[1] == G]
        bad_log = False
        for x in aggs:
            d = dict(x[3])
            mv = d.get('moves')
            if mv is None or match(call('alloc::vec::Vec::<T>::new'), mv) is None:
                bad_log = True
        if not aggs:
            ctx.inconclusive(R, '%s: the Game it builds does not reach its return value in a recognised form' % k)
        elif bad_log:
            ctx.violation(R, k + ':log', 'constructor does not start with an empty log: ' + sh(s.ret, 200), where(s.body))
        else:
            ctx.ok(R, '%s starts with an empty log' % k, where(s.body))
    fn = f.fns.get('game::Game::actions')
    if fn is None:
        ctx.inconclusive(R, 'Game::actions not found')
    elif fn['output'].startswith('&') and not fn['output'].startswith('&mut'):
        s = ctx.an().summary('game::Game::actions')
        if norm(s.ret) == MOVES:
            ctx.ok(R, 'actions() returns a shared reference to the log', where(s.body))
        else:
            ctx.violation(R, 'game::Game::actions:value', 'actions() returns %s, not the log' % sh(s.ret, 100), where(s.body))
    else:
        ctx.violation(R, 'game::Game::actions:mut', 'actions() hands out %s' % fn['output'], '')


LASTS = [None, ('MakeMove',), ('OfferDraw', 'White'), ('OfferDraw', 'Black'), ('AcceptDraw',), ('DeclareDraw',),
         ('Resign', 'White'), ('Resign', 'Black')]


def action_const(e):
    """('agg', Action, V, fields) with constant colour -> tuple key"""
    if e[0] == 'agg' and e[1] == ACT:
        fs = e[3]
        if not fs:
            return (e[2],)
        if len(fs) == 1 and fs[0][1][0] == 'enum':
            return (e[2], fs[0][1][2])
    return None


def replay_boards(ctx, s):
    """loop-carried Board values of s that are the exact replay of the action log: start_pos advanced by make_move_new over
    exactly the MakeMove actions in log order (the body of current_position, wherever it is written out)"""
    out = []
    d = ctx.facts().enum_discr(ACT, 'MakeMove')
    for l in for_loops(s):
        src = norm(l['source']) if l['source'] is not None else None
        if src is None or match(call('core::slice::<impl [T]>::iter', MOVES), src) is None or l['pre'] is None:
            continue
        if break_exits(s, l):
            continue
        E = norm(l['elem'])
        for root, init in s.exit[l['pre']].items():
            if norm(init) != ('field', SELF, 'start_pos'):
                continue
            latch = loop_latch_value(s, l, root)
            if latch is None:
                continue
            cur = ('loop', l['header'], root)
            for EE in (E, ('mem', ('h', E))):
                step = call('board::Board::make_move_new', cur, ('field', ('variant', EE, 'MakeMove'), '0'))
                if match(('ite', ('discr', EE), ((d, step), ('otherwise', cur))), norm(latch)) is not None:
                    out.append(cur)
    return out


def r4(ctx, rule='C10.R4', only_status=False):
    R = rule
    s = summary(ctx, 'game::Game::result', R)
    if s is None:
        return
    w = where(s.body)
    f = ctx.facts()
    r = inline_private(ctx, s.ret)       # e.g. a private `fn last_action(&self) -> Option<&Action>`
    status = ('discr', call('board::Board::status', call('game::Game::current_position', ('param', 1))))
    # the current position may also be replayed inside result() itself
    CUR = [call('game::Game::current_position', ('param', 1))] + replay_boards(ctx, s)
    is_status = lambda c: c[0] == 'discr' and c[1][0] == 'call' and c[1][1] == 'board::Board::status' and c[1][2] and c[1][2][0] in CUR
    def side_of(x):
        """is x the side to move of the current position?"""
        return match(STM, x) is not None or (x[0] == 'call' and x[1] == 'board::Board::side_to_move' and x[2] and x[2][0] in CUR)
    LEN = call('alloc::vec::Vec::<T, A>::len', MOVES)
    LAST = ('index', MOVES, ('bin', 'Sub', LEN, ('int', 1, 'usize')))
    STM = call('game::Game::side_to_move', ('param', 1))
    LASTOPT = call('core::slice::<impl [T]>::last', MOVES)
    BRANCH = call('<core::option::Option<T> as core::ops::try_trait::Try>::branch', LASTOPT)
    LASTACTS = [LAST, ('mem', ('h', ('field', ('variant', BRANCH, 'Continue'), '0'))), ('mem', ('h', ('field', ('variant', LASTOPT, 'Some'), '0'))),
                ('field', ('variant', BRANCH, 'Continue'), '0'), ('field', ('variant', LASTOPT, 'Some'), '0')]
    res = lambda v: ('agg', 'core::option::Option', 'Some', (('0', ('enum', 'game::GameResult', v)),))
    none = ('agg', 'core::option::Option', 'None', ())
    unknown = []
    table = {}
    statuses = ['Ongoing', 'Stalemate', 'Checkmate']
    for st_ in statuses:
        for stm in ('White', 'Black'):
            for last in LASTS:
                def decide(c, vals):
                    if match(status, c) is not None or is_status(c):
                        return f.enum_discr('board::BoardStatus', st_)
                    if c[0] == 'call' and 'PartialEq' in c[1] and (c[1].endswith('::eq') or c[1].endswith('::ne')) and len(c[2]) == 2:
                        for x_, y_ in ((c[2][0], c[2][1]), (c[2][1], c[2][0])):
                            if side_of(x_) and y_[0] == 'enum' and match(STM, x_) is None:
                                return as_bool((stm == y_[2]) == c[1].endswith('::eq'), vals)
                    if c[0] == 'discr' and side_of(c[1]) and match(STM, c[1]) is None:
                        return f.enum_discr('color::Color', stm)
                    if match(('bin', 'Eq', LEN, ('int', 0, 'usize')), c) is not None or match(call('alloc::vec::Vec::<T, A>::is_empty', MOVES), c) is not None:
                        return as_bool(last is None, vals)
                    if match(('bin', 'Ne', LEN, ('int', 0, 'usize')), c) is not None or match(('bin', 'Gt', LEN, ('int', 0, 'usize')), c) is not None:
                        return as_bool(last is not None, vals)
                    m = match(call('<game::Action as core::cmp::PartialEq>::eq', LAST, V('a')), c)
                    if m is not None:
                        k = action_const(m['a'])
                        if k is not None:
                            return as_bool(last == k, vals)
                    m = match(call('<color::Color as core::cmp::PartialEq>::eq', STM, V('c')), c) or \
                        match(call('<color::Color as core::cmp::PartialEq>::eq', V('c'), STM), c)
                    if m is not None and m['c'][0] == 'enum':
                        return as_bool(stm == m['c'][2], vals)
                    m = match(call('<color::Color as core::cmp::PartialEq>::ne', STM, V('c')), c) or \
                        match(call('<color::Color as core::cmp::PartialEq>::ne', V('c'), STM), c) or \
                        match(call('core::cmp::PartialEq::ne', STM, V('c')), c) or match(call('core::cmp::PartialEq::ne', V('c'), STM), c)
                    if m is not None and m['c'][0] == 'enum':
                        return as_bool(stm != m['c'][2], vals)
                    if match(('discr', STM), c) is not None:
                        return f.enum_discr('color::Color', stm)
                    # `self.moves.last()` idioms: `?`, is_some/is_none, match on the option / on the action
                    isact = lambda e: any(match(p_, e) is not None for p_ in LASTACTS)
                    if match(('discr', BRANCH), c) is not None:
                        return 0 if last is not None else 1
                    if match(('discr', LASTOPT), c) is not None:
                        return 1 if last is not None else 0  # Option: None = 0, Some = 1
                    if match(call('core::option::Option::<T>::is_some', LASTOPT), c) is not None or match(call('core::option::Option::<T>::is_none', LASTOPT), c) is not None:
                        return as_bool((last is not None) == c[1].endswith('is_some'), vals)
                    if c[0] == 'discr' and isact(c[1]) and last is not None:
                        return f.enum_discr(ACT, last[0])
                    if c[0] == 'discr' and c[1][0] == 'field' and c[1][2] == '0' and c[1][1][0] == 'variant' and isact(c[1][1][1]) \
                            and last is not None and len(last) == 2 and c[1][1][2] == last[0]:
                        return f.enum_discr('color::Color', last[1])
                    unknown.append(c)
                    return None
                table[(st_, stm, last)] = [none if (l[0] == 'call' and l[1].endswith('::from_residual') and 'Option' in l[1]) else l
                                           for l in eval_tree(r, decide)]
    if unknown:
        # Who mated whom must depend on whose turn it is.  If, with the status fixed at Checkmate and the side to move fixed,
        # both winners are still reachable, the winner is decided by the foreign condition; when that condition reads no
        # side to move at all (neither the start position's nor a board's) it cannot name the right side for both colours.
        mentions_side = lambda c: any(isinstance(x, tuple) and x and ((x[0] == 'field' and x[2] == 'side_to_move') or
                                                                      (x[0] == 'call' and x[1].endswith('::side_to_move')))
                                      for x in walk(inline_private(ctx, c)))
        both = any({res('BlackCheckmates'), res('WhiteCheckmates')} <= set(leaves) for (st_, stm, last), leaves in table.items() if st_ == 'Checkmate')
        blind = [c for c in unknown if not mentions_side(c)]
        if both and blind and len(blind) == len(unknown) and not only_status:
            ctx.violation(R, 'game::Game::result:winner', 'on checkmate the winner is decided by `%s`, which does not depend on the side to move: '
                          'it cannot be right for both colours of the side that starts' % sh(blind[0], 160), w)
            return
        ctx.inconclusive(R, 'result() tests something unexpected: ' + sh(unknown[0], 200))
        return
    bad = []
    n = 0
    for (st_, stm, last), leaves in table.items():
        if st_ == 'Checkmate':
            want = res('BlackCheckmates' if stm == 'White' else 'WhiteCheckmates')
        elif st_ == 'Stalemate':
            want = res('Stalemate')
        elif only_status:
            continue
        elif last == ('AcceptDraw',):
            want = res('DrawAccepted')
        elif last == ('DeclareDraw',):
            want = res('DrawDeclared')
        elif last == ('Resign', 'White'):
            want = res('WhiteResigns')
        elif last == ('Resign', 'Black'):
            want = res('BlackResigns')
        else:
            want = none
        n += 1
        if leaves != [want]:
            bad.append('(status %s, %s to move, last %s) -> %s, expected %s' % (st_, stm, last, [sh(l, 60) for l in leaves], sh(want, 60)))
    if bad:
        ctx.violation(R, 'game::Game::result', 'result table wrong in %d of %d cases: %s' % (len(bad), n, '; '.join(bad[:2])), w)
    else:
        ctx.ok(R, 'result(): %d (status, side to move, last action) cases equal the required table%s' % (
            n, ' (status rows)' if only_status else ''), w)


def r5(ctx):
    R = 'C10.R5'
    s = summary(ctx, 'game::Game::current_position', R)
    if s is not None:
        w = where(s.body)
        loops = for_loops(s)
        ok = False
        for l_ in loops:
            require_no_break(ctx, R, s, l_, 'game::Game::current_position', 'the action log', 'later moves are not replayed')
        if len(loops) == 1:
            l = loops[0]
            src = norm(l['source']) if l['source'] is not None else None
            r = s.ret
            LEN_ = call('alloc::vec::Vec::<T, A>::len', MOVES)
            by_index = src is not None and match(('agg', 'core::ops::range::Range', 'Range', (('start', ('int', 0, 'usize')), ('end', LEN_))), src) is not None
            if src is not None and (match(call('core::slice::<impl [T]>::iter', MOVES), src) is not None or by_index) and r[0] == 'loop':
                root = r[2]
                init = norm(s.exit[l['pre']].get(root)) if l['pre'] is not None else None
                latch = loop_latch_value(s, l, root)
                E = norm(l['elem'])
                if latch is not None:
                    lv = norm(latch)
                    cur = ('loop', l['header'], root)
                    d = ctx.facts().enum_discr(ACT, 'MakeMove')
                    cands = (E, ('mem', ('h', E))) if not by_index else (('index', MOVES, E),)
                    for EE in cands:
                        mv = ('field', ('variant', EE, 'MakeMove'), '0')
                        step = call('board::Board::make_move_new', cur, mv)
                        pat = ('ite', ('discr', EE), ((d, step), ('otherwise', cur)))
                        if init == ('field', SELF, 'start_pos') and match(pat, lv) is not None:
                            ok = True
        recognised = len(loops) == 1
        if not loops:
            # iterator form: self.moves.iter().fold(self.start_pos, |b, a| match a { MakeMove(m) => b.make_move_new(m), _ => b })
            r = norm(s.ret)
            m = match(call(V('fold'), call('core::slice::<impl [T]>::iter', MOVES), V('init'), ('closure', V('k'), ())), r)
            if m is not None and isinstance(m['fold'], str) and m['fold'].endswith('::fold'):
                recognised = True
                cs = ctx.an().summary(m['k'])
                d = ctx.facts().enum_discr(ACT, 'MakeMove')
                if cs is not None:
                    acc, el = ('param', 2), ('mem', ('p', 3))
                    step = call('board::Board::make_move_new', acc, ('field', ('variant', el, 'MakeMove'), '0'))
                    verdict, why = decide_equal(ctx, [('ite', ('discr', el), ((d, step), ('otherwise', acc)))], norm(cs.ret))
                    ok = verdict == 'ok' and m['init'] == ('field', SELF, 'start_pos')
                    if verdict == 'inconclusive':
                        recognised = False
        if ok:
            ctx.ok(R, 'current_position = fold(make_move_new) over exactly the MakeMove actions, in log order, from start_pos', w)
        elif recognised:
            ctx.violation(R, 'game::Game::current_position', 'the replay is not `for a in moves { if MakeMove(m) '
                          '{ pos = pos.make_move_new(m) } }` (or the equivalent fold) starting at start_pos', w)
        else:
            ctx.inconclusive(R, 'current_position: replay neither a single loop over the action log nor iter().fold(start_pos, ..): ' + sh(norm(s.ret), 200))
    s = summary(ctx, 'game::Game::side_to_move', R)
    if s is not None:
        w = where(s.body)
        r = norm(s.ret)
        clos = [k for k in ctx.facts().bodies if k.startswith('game::Game::side_to_move::{closure#') and '{promoted' not in k]
        filt = ('closure', V('k'), ())
        cnt = call('<core::iter::adapters::filter::Filter<I, P> as core::iter::traits::iterator::Iterator>::count',
                   call('core::iter::traits::iterator::Iterator::filter', call('core::slice::<impl [T]>::iter', MOVES), filt))
        start = call('<color::Color as core::cmp::PartialEq>::eq', call('board::Board::side_to_move', ('field', SELF, 'start_pos')),
                     ENUM('color::Color', 'White'))
        W, B = ENUM('color::Color', 'White'), ENUM('color::Color', 'Black')
        # semantic reading: replace the MakeMove count by n and the start side by a colour, fold, compare with the parity rule
        il = inliner(ctx)
        d = ctx.facts().enum_discr(ACT, 'MakeMove')
        cnts = [x for x in walk(r) if match(cnt, x) is not None]
        okc = False
        for x in cnts:
            m = match(cnt, x)
            cs = ctx.an().summary(m['k'])
            if cs is not None and match(('ite', ('discr', ANY), ((d, ('int', 1, 'bool')), ('otherwise', ('int', 0, 'bool')))), norm(cs.ret)) is not None:
                okc = True
        startside = call('board::Board::side_to_move', ('field', SELF, 'start_pos'))

        def repl(e, n, colour):
            if isinstance(e, tuple) and e:
                if match(cnt, e) is not None:
                    return ('int', n, 'usize')
                if match(startside, e) is not None or e == ('field', ('field', SELF, 'start_pos'), 'side_to_move'):
                    return colour
                return tuple(repl(y, n, colour) if isinstance(y, tuple) else y for y in e)
            return e
        bad = []
        undecided = False
        for n_ in range(4):
            for colour in (W, B):
                v = norm(il.fold(repl(r, n_, colour)))
                want = W if (n_ + (colour == B)) % 2 == 0 else B
                if v[0] != 'enum':
                    undecided = True
                elif v != want:
                    bad.append('%d moves from a %s start -> %s' % (n_, colour[2], v[2]))
        if not cnts or not okc or undecided:
            ctx.inconclusive(R, 'side_to_move: not a function of (number of MakeMove actions, start side) in a recognised form: ' + sh(r, 200))
        elif bad:
            ctx.violation(R, 'game::Game::side_to_move', 'side_to_move is not the parity of the MakeMove count plus the start side: ' + '; '.join(bad[:3]), w)
        else:
            ctx.ok(R, 'side_to_move = White iff (#MakeMove + [start side is Black]) is even', w)


def r6(ctx):
    R = 'C10.R6'
    key = 'game::Game::make_move'
    s = summary(ctx, key, R)
    if s is None:
        return
    legal = call('board::Board::legal', call('game::Game::current_position', ('param', 1)), ('param', 2))
    for c in s.calls:
        if c['callee'] != PUSH:
            continue
        gs = guards(s, c['blk'])
        if any(g['cond'] is not None and match(legal, norm(g['cond'])) is not None and truth(g) is True for g in gs):
            ctx.ok(R, 'MakeMove(m) is pushed only if current_position().legal(m)', where(s.body, c['line']))
        else:
            ctx.violation(R, key + ':legal', 'the MakeMove push is not control dependent on current_position().legal(m) for the same m',
                          where(s.body, c['line']))


def r7(ctx):
    R = 'C10.R7'
    key = 'game::Game::accept_draw'
    s = summary(ctx, key, R)
    if s is None:
        return
    LEN = call('alloc::vec::Vec::<T, A>::len', MOVES)
    at = lambda k: ('index', MOVES, ('bin', 'Sub', LEN, ('int', k, 'usize')))
    eqa = lambda x, a: call('<game::Action as core::cmp::PartialEq>::eq', x, a)
    offer = lambda c: ('agg', ACT, 'OfferDraw', (('0', c),))
    STM = call('game::Game::side_to_move', ('param', 1))
    W, B = ENUM('color::Color', 'White'), ENUM('color::Color', 'Black')
    n = 0
    OFFER_D = ctx.facts().enum_discr(ACT, 'OfferDraw')
    lastW, lastB = eqa(at(1), offer(W)), eqa(at(1), offer(B))
    prevO = eqa(at(2), offer(call('<color::Color as core::ops::bit::Not>::not', STM)))
    prevO2 = eqa(at(2), offer(('cnot', STM)))

    def mk_decide(nlen, last, prev_is_offer, unknown):
        def decide(cnd, vals):
            cn = norm(cnd)
            if any(isinstance(x, tuple) and x and x[0] == 'call' and x[1].startswith('game::Game::') and
                   x[1] not in ('game::Game::result', 'game::Game::side_to_move', 'game::Game::current_position') for x in walk(cn)):
                cn = inline_private(ctx, cn)          # e.g. a private `fn last_action(&self) -> Action`
            if game_open(cn, [0]) or game_open(cn, ['otherwise']):
                # the guard on result(): the game is open on the paths of interest
                return 0 if match(RESULT_SOME, cn) is not None or match(('discr', RESULT), cn) is not None else 'otherwise'
            if cn[0] == 'bin' and cn[1] in ('Gt', 'Ge', 'Lt', 'Le', 'Eq', 'Ne') and cn[3][0] == 'int' and match(LEN, cn[2]) is not None:
                k = cn[3][1]
                tv = {'Gt': nlen > k, 'Ge': nlen >= k, 'Lt': nlen < k, 'Le': nlen <= k, 'Eq': nlen == k, 'Ne': nlen != k}[cn[1]]
                return as_bool(tv, vals)
            if match(call('alloc::vec::Vec::<T, A>::is_empty', MOVES), cn) is not None:
                return as_bool(nlen == 0, vals)
            if match(lastW, cn) is not None:
                return as_bool(last == 'W', vals)
            if match(lastB, cn) is not None:
                return as_bool(last == 'B', vals)
            if cn[0] == 'discr' and match(at(1), cn[1]) is not None:
                return OFFER_D if last in ('W', 'B') else [v for v in vals if v != OFFER_D]
            if match(prevO, cn) is not None or match(prevO2, bb(cn, ctx.an())) is not None or match(prevO2, cn) is not None:
                return as_bool(prev_is_offer, vals)
            if cn[0] == 'call' and cn[1] == '<game::Action as core::cmp::PartialEq>::eq' and \
                    any(match(at(k), a_) is not None for k in (1, 2, 3) for a_ in cn[2]):
                return None      # some other comparison of a logged action: says nothing about a pending offer
            unknown.append(cn)
            return None
        return decide
    for c in s.calls:
        if c['callee'] != PUSH:
            continue
        n += 1
        disj = dnf(s, c['blk'])
        unknown = []
        bad = None
        for nlen in (0, 1, 2, 3):
            for last in ('W', 'B', 'other'):
                for prev in (True, False):
                    pending = (nlen >= 1 and last in ('W', 'B')) or (nlen >= 2 and prev)
                    if pending:
                        continue
                    if any(conj_possible(conj, mk_decide(nlen, last, prev, unknown)) for conj in disj):
                        bad = bad or (nlen, last, prev)
        if unknown:
            ctx.inconclusive(R, 'accept_draw: the AcceptDraw push depends on a condition that is not understood: ' + sh(unknown[0], 160))
        elif bad:
            ctx.violation(R, '%s:push@%s' % (key, 'offer-test-missing'), 'an AcceptDraw push is reachable without a pending offer: log length %d, latest action %s, '
                          'action before it %s' % (bad[0], {'W': 'an offer', 'B': 'an offer', 'other': 'not an offer'}[bad[1]],
                                                   'an offer by the side not to move' if bad[2] else 'not such an offer'), where(s.body, c['line']))
        else:
            ctx.ok(R, 'AcceptDraw push only if the latest action is a draw offer, or the action before the latest is an offer by the side not to '
                      'move (latest is then a move: result() is None excludes Resign/Accept/Declare)', where(s.body, c['line']))
    ctx.floor(R, 'AcceptDraw push sites', n, 1)


def r9(ctx):
    """R9 LEGAL-IS-MEMBERSHIP (= C01.R1): the legality gate of make_move is membership in the generated move set with
    equality over all three components of the move."""
    from . import c01
    sub = Sub(ctx, {'C01.R1': 'C10.R9'})
    c01.r1(sub)


def run(ctx):
    _CTX[0] = ctx
    # R10 BUILD-PARITY: the mutators and result() do the same with and without debug assertions
    debug_parity(ctx, 'C10.R10', sorted(MUTATORS) + ['game::Game::result'])
    # R11 STATUS (= C04.R1): "checkmate" / "stalemate" in result() are Board::status(), whose decision table must be right
    from . import c04
    sub = Sub(ctx, {'C04.R1': 'C10.R11'})
    c04.r1(sub)
    r9(ctx)
    r12(ctx)
    r3(ctx)
    r4(ctx)
    r5(ctx)
    r6(ctx)
    r7(ctx)
