"""C08 — the position hash is a pure function of the position (path independence).

R1 HASH-WRITERS: Board.hash is written field-wise by exactly one function (the lock-step toggle);
   Board literals exist only in the private constructor, with hash 0 and empty placement; whole
   Board copies are the only other way a hash value moves. null_move, the rights helpers, set_ep /
   remove_ep and the cache recomputation do not reach the writer.
R2 LOCK-STEP (= C03.R1): in that function the key toggled is ZOBRIST_PIECES[colour][piece][square]
   with the same piece, colour and (lowest) square as the bitboard toggles; every call site passes a
   single-square set.
R3 GET-HASH-PURE: get_hash is the xor of: the incremental field; the en-passant key of (file of the
   stored square, a colour that is a function of side to move) iff Some; the castling key
   (rights of c, c) for both colours; the side key for exactly one side. No other input.
R4 HASH-EQ: the fields read by `impl Hash for Board` are compared by PartialEq (derived over all
   fields) => equal boards hash equally.
R5 FROM-TEXT: construction from a builder starts at the zero constructor and reaches `hash` only
   through the lock-step function."""
from .common import *
from .. import tables as T

LEVEL = 'other'
EXHAUSTIVE = True
EXPLANATION = ('Writer inventory of Board.hash over the whole crate (type-based effects), lock-step shape of the single '
               'writer, call-site audit of its square-set argument, folding shape of get_hash over origin expressions, '
               'Hash/PartialEq field-set agreement. Holds for every history because it constrains every path of the code.')
NOT_DECIDED = ('that every toggle names the piece that really stands on the square (a value property of make_move, C02); '
               'under that assumption R1-R5 give path independence')

BOARD = 'board::Board'
SELF = ('mem', ('p', 1))
NOT = '<color::Color as core::ops::bit::Not>::not'
GETFILE = 'square::Square::get_file'
Z = 'zobrist::'


def find_toggle(ctx, R):
    """the unique function that writes Board.hash field-wise"""
    eff = ctx.eff()
    ws = [k for k in eff.direct if (BOARD, 'hash') in eff.direct[k] and '::{' not in k]
    if len(ws) != 1:
        return None, ws
    return ws[0], ws


def r1(ctx):
    R = 'C08.R1'
    f = ctx.facts()
    eff = ctx.eff()
    tog, ws = find_toggle(ctx, R)
    if tog is None:
        if not ws:
            ctx.inconclusive(R, 'no function writes Board.hash: anchor lost')
        else:
            for k in ws:
                ctx.instance(R, 'writer of Board.hash: ' + k, where(f.body(k)))
            ctx.violation(R, 'writers:' + ','.join(sorted(ws)),
                          'Board.hash is written field-wise by %d functions %s; only the lock-step toggle may write it' % (
                              len(ws), sorted(ws)), where(f.body(sorted(ws)[-1])))
        return None
    ctx.ok(R, 'single field-wise writer of Board.hash: %s (positive control)' % tog, where(f.body(tog)))
    # Board literals
    lits = []
    for key, body in f.bodies.items():
        for bi in body.reachable():
            for st in body.blocks[bi]['stmts']:
                if st['k'] == 'assign' and st['rv']['rv'] == 'agg' and st['rv'].get('adt') == BOARD:
                    lits.append((key, body, st))
    if not lits:
        ctx.inconclusive(R, 'no Board literal found (constructor anchor lost)')
    for key, body, st in lits:
        s = ctx.an().summary(key)
        vis = f.fns.get(key, {}).get('pub')
        v = ninl(ctx, s.ret) if s else None
        m = match(('agg', BOARD, 'Board', V('fs')), v) if v else None
        ok = False
        if m:
            fs = dict(m['fs'])
            zero_bb = ('int', 0, 'bitboard::BitBoard')
            ok = (fs.get('hash') == ('int', 0, 'u64') and fs.get('combined') == zero_bb and
                  fs.get('pieces', ('x',))[0] == 'repeat' and fs['pieces'][1] == zero_bb and
                  fs.get('color_combined', ('x',))[0] == 'repeat' and fs['color_combined'][1] == zero_bb)
        if ok and not vis:
            ctx.ok(R, 'Board literal only in private %s: empty placement with hash 0' % key, where(body, st['line']))
        else:
            ctx.violation(R, 'literal:' + key, 'Board literal in %s is not the private all-empty/hash-0 constructor' % key,
                          where(body, st['line']))
    # functions that must not reach the writer
    must_not = ['board::Board::null_move', 'board::Board::remove_castle_rights', 'board::Board::add_castle_rights',
                'board::Board::set_ep', 'board::Board::remove_ep', 'board::Board::update_pin_info']
    for k in must_not:
        if k not in f.bodies:
            ctx.note('not present (skipped): ' + k)
            continue
        if any(fld == 'hash' and adt == BOARD for adt, fld in eff.writes(k)):
            ctx.violation(R, 'reaches:' + k, '%s can change Board.hash (reaches the toggle or writes the field)' % k,
                          where(f.body(k)))
        else:
            ctx.ok(R, '%s cannot write Board.hash (transitive effect set)' % k, where(f.body(k)))
    return tog


def lockstep(ctx, R, tog):
    """shape of the lock-step function; returns True if it holds"""
    f = ctx.facts()
    s = ctx.an().summary(tog)
    il = inliner(ctx)
    fin = norm(il.inline(s.final.get(('p', 1), SELF)))
    base, fs = __import__('sa.expr', fromlist=['peel_upd']).peel_upd(fin)
    w = where(s.body)
    if base != SELF:
        ctx.inconclusive(R, 'effect of %s not recognised: %s' % (tog, sh(fin, 400)))
        return False
    # identify parameter roles from types
    sig = f.fns.get(tog, {}).get('inputs', [])
    roles = {}
    for i, ty in enumerate(sig):
        if ty == 'piece::Piece':
            roles['piece'] = i + 1
        elif ty == 'color::Color':
            roles['color'] = i + 1
        elif ty == 'bitboard::BitBoard':
            roles['bb'] = i + 1
    if set(roles) != {'piece', 'color', 'bb'}:
        ctx.inconclusive(R, 'parameters of %s are not (piece, squares, colour): %s' % (tog, sig))
        return False
    P, C, B = ('param', roles['piece']), ('param', roles['color']), ('param', roles['bb'])
    pidx = ('cast', ('discr', P), 'usize')
    cidx = ('cast', ('discr', C), 'usize')
    bw = ('field', B, '0')
    ok = True

    def tog_of(container, idx):
        cur = ('index', ('field', SELF, container), idx)
        return ('updidx', ('field', SELF, container), idx, ('upd', cur, '0', ('bin', 'BitXor', ('field', cur, '0'), bw)))

    want = {
        'pieces': tog_of('pieces', pidx),
        'color_combined': tog_of('color_combined', cidx),
        'combined': ('upd', ('field', SELF, 'combined'), '0', ('bin', 'BitXor', ('field', ('field', SELF, 'combined'), '0'), bw)),
    }
    for name, wv in want.items():
        got = fs.get(name)
        if got is not None and match(wv, got) is not None:
            ctx.ok(R, '%s: %s ^= squares (indexed by the %s argument)' % (tog, name, {'pieces': 'piece', 'color_combined': 'colour'}.get(name, 'same')), w)
        else:
            ok = False
            ctx.violation(R, '%s:%s' % (tog, name), 'lock-step broken: %s after the call is %s' % (
                name, sh(got, 300) if got is not None else 'unchanged'), w)
    sq = ('cast', ('bin', 'BitAnd', ('cast', call('core::num::<impl u64>::trailing_zeros', bw), 'u8'), INT(63, 'u8')), 'usize')
    key = ('index', ('index', ('index', ('constdef', Z + 'ZOBRIST_PIECES', ANY), cidx), pidx), sq)
    hv = fs.get('hash')
    if hv is not None and match(('bin', 'BitXor', ('field', SELF, 'hash'), key), hv) is not None:
        ctx.ok(R, '%s: hash ^= ZOBRIST_PIECES[colour][piece][lowest square of the set] with the same three arguments' % tog, w)
    else:
        ok = False
        ctx.violation(R, tog + ':hash', 'hash toggle does not use the same (piece, square, colour): ' +
                      (sh(hv, 400) if hv is not None else 'hash unchanged'), w)
    extra = set(fs) - {'pieces', 'color_combined', 'combined', 'hash'}
    if extra:
        ok = False
        ctx.violation(R, tog + ':extra', 'lock-step function also writes %s' % sorted(extra), w)
    # call sites pass a single-square set
    n = 0
    single = ('bitboard::BitBoard::from_square', 'bitboard::BitBoard::set')
    for key2 in sorted(f.bodies):
        s2 = ctx.an().summary(key2) if any(t.get('callee') == tog for _, t in f.bodies[key2].calls()) else None
        if s2 is None:
            continue
        for c in s2.calls_to(tog):
            n += 1
            a = norm(c['argvals'][roles['bb'] - 1])

            def one_square(a_, fn_key, depth=0):
                """is the set a single-square constructor -- directly, or a parameter of a private helper all of whose
                call sites pass one (followed one level up)?"""
                if a_[0] == 'call' and a_[1] in single:
                    return True
                if a_[0] == 'param' and depth < 2 and not (f.fns.get(fn_key) or {}).get('pub', True):
                    sites = []
                    for k3, b3 in f.bodies.items():
                        if any(t_.get('callee') == fn_key for _, t_ in b3.calls()):
                            s3 = ctx.an().summary(k3)
                            sites += [(k3, c3) for c3 in s3.calls_to(fn_key)]
                    return bool(sites) and all(one_square(norm(c3['argvals'][a_[1] - 1]), k3, depth + 1) for k3, c3 in sites)
                return False
            if one_square(a, key2):
                ctx.ok(R, 'call site passes %s (one square)' % (a[1].rsplit('::', 1)[1] + '(..)' if a[0] == 'call' else
                                                                  'a parameter that is a single square at every call of the private helper'),
                       where(s2.body, c['line']))
            else:
                ok = False
                ctx.violation(R, 'callsite:%s:%s' % (key2, sh(a, 60)),
                              'toggle called with a set that is not a single-square constructor: %s (the key uses only its '
                              'lowest square)' % sh(a, 200), where(s2.body, c['line']))
    ctx.floor(R, 'call sites of the lock-step toggle', n, 10)
    return ok


def r2(ctx, tog):
    lockstep(ctx, 'C08.R2', tog)


def flatten_xor(e):
    """xor normal form: list of terms; a term folded on some branches only becomes ('when', cond, 0, present_iff_eq0, term)
    (conditions here are two-valued: Option / Color discriminants and booleans, so `== 1` is written `!= 0`)."""
    if e[0] == 'bin' and e[1] == 'BitXor':
        return flatten_xor(e[2]) + flatten_xor(e[3])
    if e[0] == 'int' and e[1] == 0:
        return []
    if e[0] == 'ite' and len([1 for _, x in e[2] if x != ('never',)]) == 2:
        cond = e[1]
        (v0, e0), (v1, e1) = [(v, x) for v, x in e[2] if x != ('never',)]      # an exhaustive `match` adds an unreachable arm
        t0, t1 = flatten_xor(e0), flatten_xor(e1)
        common = []
        r1 = list(t1)
        r0 = []
        for x in t0:
            if x in r1:
                r1.remove(x)
                common.append(x)
            else:
                r0.append(x)

        def when(v, other, x):
            # present iff cond == v   (v may be 'otherwise' = "not `other`")
            if v == 'otherwise':
                val, pos = other, False
            else:
                val, pos = v, True
            if val == 1:
                val, pos = 0, not pos
            return ('when', cond, val, pos, x)
        return common + [when(v0, v1, x) for x in r0] + [when(v1, v0, x) for x in r1]
    return [e]


def r3(ctx, rule='C08.R3'):
    R = rule
    key = 'board::Board::get_hash'
    s = summary(ctx, key, R)
    if s is None:
        return
    w = where(s.body)
    il = inliner(ctx)
    t = T.Tables(ctx.facts())
    side = t.scalar(Z + 'SIDE_TO_MOVE')
    e = norm(il.inline(s.ret, only=lambda k: k not in (NOT, GETFILE)))
    terms = flatten_xor(e)
    STM = ('field', SELF, 'side_to_move')
    NSTM = call(NOT, STM)
    cidx = lambda c: ('cast', ('discr', c), 'usize')
    unmatched = list(terms)

    def take(pred):
        for x in list(unmatched):
            r = pred(x)
            if r is not None:
                unmatched.remove(x)
                return r
        return None

    # incremental field
    if take(lambda x: {} if x == ('field', SELF, 'hash') else None) is not None:
        ctx.ok(R, 'get_hash folds the incremental placement hash', w)
    else:
        ctx.violation(R, key + ':placement', 'the incremental hash field is not part of get_hash', w)
    # castling keys: (rights of c, c) for both colours
    cols = []
    while True:
        m = take(lambda x: match(('index', ('index', ('constdef', Z + 'ZOBRIST_CASTLES', ANY), cidx(V('c'))),
                                  cidx(('index', ('field', SELF, 'castle_rights'), cidx(V('c'))))), x))
        if m is None:
            # constant colour folded to its index: ZOBRIST_CASTLES[i][rights[i]]
            m = take(lambda x: match(('index', ('index', ('constdef', Z + 'ZOBRIST_CASTLES', ANY), ('int', V('i'), 'usize')),
                                      cidx(('index', ('field', SELF, 'castle_rights'), ('int', V('i'), 'usize')))), x))
            if m is None:
                break
            cols.append(ENUM('color::Color', 'White' if m['i'] == 0 else 'Black'))
            continue
        cols.append(m['c'])
    W, B = ENUM('color::Color', 'White'), ENUM('color::Color', 'Black')
    def kind(c):
        if c == STM:
            return 'stm'
        if match(NSTM, c) is not None:
            return 'opp'
        if c == W:
            return 'white'
        if c == B:
            return 'black'
        return 'other:' + sh(c, 60)
    kinds = sorted(kind(c) for c in cols)
    if kinds in (['opp', 'stm'], ['black', 'white']):
        ctx.ok(R, 'castling key folded as (rights of c, c) for both colours', w)
    else:
        ctx.violation(R, key + ':castles', 'castling keys do not pair each colour with its own rights for both colours: colours=%s, '
                      'leftover=%s' % ([sh(c, 80) for c in cols], [sh(x, 200) for x in unmatched if 'CASTLES' in sh(x, 2000)]), w)
    # en passant: key iff Some, file of the stored square
    epsq = ('field', ('variant', ('field', SELF, 'en_passant'), 'Some'), '0')
    fidx = ('cast', ('discr', call(GETFILE, epsq)), 'usize')
    def ep_term(x):
        if x[0] == 'when' and x[1] == ('discr', ('field', SELF, 'en_passant')) and \
                [((d == x[2]) == bool(x[3])) for d in (0, 1)] == [False, True]:     # present iff Some (None = 0, Some = 1), however spelled
            return match(('index', ('index', ('constdef', Z + 'ZOBRIST_EP', ANY), cidx(V('c'))), fidx), x[4])
        return None
    m = take(ep_term)
    if m is not None and kind(m['c']) in ('stm', 'opp'):
        ctx.ok(R, 'en-passant key of (file of the stored square, %s) iff the option is Some' % sh(m['c'], 60), w)
    else:
        ctx.violation(R, key + ':ep', 'en-passant state is not folded as "key(file, colour) iff Some"', w)
    # side key for exactly one side
    def side_term(x):
        if x[0] != 'when':
            return None
        cond, val, pos, term = x[1:]
        present = []
        for colour in (0, 1):
            if cond == ('discr', STM):
                cv = colour
            elif cond[0] == 'bin' and cond[1] in ('Eq', 'Ne') and cond[2] == ('discr', STM) and cond[3][0] == 'int':
                cv = int((colour == cond[3][1]) == (cond[1] == 'Eq'))
            else:
                return None
            present.append((cv == val) == pos)
        if sum(present) == 1:
            return {'k': term}
        return None
    m = take(side_term)
    if m is not None and m['k'][0] == 'int' and m['k'][1] == side and side:
        ctx.ok(R, 'side key folded for exactly one side to move', w)
    else:
        ctx.violation(R, key + ':side', 'side to move is not folded as "SIDE key for one colour, 0 for the other"', w)
    if unmatched:
        ctx.violation(R, key + ':extra', 'get_hash folds %d further term(s): %s' % (len(unmatched), [sh(x, 200) for x in unmatched]), w)
    # purity: only the four fields of self
    allowed = {'hash', 'en_passant', 'castle_rights', 'side_to_move'}
    used = {x[2] for x in walk(e) if x[0] == 'field' and x[1] == SELF}
    others = [x for x in walk(e) if x[0] in ('param',) or (x[0] == 'mem' and x != SELF)]
    if used <= allowed and not others and not any(not st.get('local') for st in s.stores):
        ctx.ok(R, 'get_hash reads only %s of the receiver and constants; writes nothing' % sorted(used), w)
    else:
        ctx.violation(R, key + ':inputs', 'get_hash depends on %s / %s' % (sorted(used - allowed), [sh(o) for o in others[:3]]), w)
    # accessor index order of the Zobrist tables is pinned by the patterns above (colour, then component)


def r4(ctx):
    R = 'C08.R4'
    f = ctx.facts()
    hk = '<board::Board as core::hash::Hash>::hash'
    ek = '<board::Board as core::cmp::PartialEq>::eq'
    sh_ = summary(ctx, hk, R)
    if sh_ is None:
        return
    read_h = set()
    for c in sh_.calls:
        for a in c['argvals']:
            for x in walk(norm(a)):
                if x[0] == 'field' and x[1] == SELF:
                    read_h.add(x[2])
    se = ctx.an().summary(ek)
    if se is None:
        ctx.inconclusive(R, 'PartialEq for Board not found')
        return
    read_e = {x[2] for x in walk(norm(se.ret)) if x[0] == 'field' and x[1] == SELF}
    read_e2 = {x[2] for x in walk(norm(se.ret)) if x[0] == 'field' and x[1] == ('mem', ('p', 2))}
    allf = {fl['name'] for fl in f.adts[BOARD]['variants'][0]['fields']}
    if not read_h:
        ctx.inconclusive(R, 'Hash for Board reads no field?')
    elif read_h <= (read_e & read_e2):
        ctx.ok(R, 'Hash reads %s, PartialEq compares %s (%s)' % (sorted(read_h), 'all fields' if read_e == allf else sorted(read_e),
               'derived' if any(i.get('derived') and ek in i['items'] for i in f.impls) else 'hand-written'), where(sh_.body))
    else:
        ctx.violation(R, hk, 'Hash reads fields %s that equality does not compare' % sorted(read_h - read_e), where(sh_.body))


def r5(ctx, tog):
    R = 'C08.R5'
    key = '<board::Board as core::convert::TryFrom<&board_builder::BoardBuilder>>::try_from'
    s = summary(ctx, key, R)
    if s is None:
        return
    news = s.calls_to('board::Board::new')
    if len(news) == 1:
        ctx.ok(R, 'construction from a builder starts at Board::new()', where(s.body, news[0]['line']))
    else:
        ctx.violation(R, key + ':start', 'construction does not start from exactly one Board::new() (found %d)' % len(news),
                      where(s.body))
    # field-wise hash writes in this function: none (all through the toggle)
    eff = ctx.eff()
    if (BOARD, 'hash') in eff.direct.get(key, set()):
        ctx.violation(R, key + ':direct', 'try_from writes Board.hash directly', where(s.body))
    else:
        ctx.ok(R, 'try_from reaches Board.hash only through %s' % tog, where(s.body))


def r6(ctx):
    """R6 OUT-OVERWRITE (= C02.R2): the board written by the in-place make_move does not depend on what the output buffer
    held before (it starts from a whole copy of the source, hash included) -- otherwise the hash depends on call order."""
    from . import c02
    sub = Sub(ctx, {'C02.R2': 'C08.R6'})
    c02.r12(sub)


def run(ctx):
    r6(ctx)
    tog = r1(ctx)
    if tog:
        r2(ctx, tog)
        r5(ctx, tog)
    r3(ctx)
    r4(ctx)
