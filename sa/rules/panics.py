"""Panic audit shared by C07.R1, C12.R1 and C13.R1.

Every panic-capable site reachable in the crate call graph from the given entry points is
enumerated from the MIR: `Assert` terminators (bounds, overflow, ...), calls to the std functions
that panic (unwrap/expect, Vec/str indexing, panicking::*). Each site must be discharged by one of
the strategies below (interval reasoning over origin expressions, dominating guards, exhaustive
switches, struct-field invariants, loop bounds) or by an entry of the confirmed-contract table,
whose structural part is re-verified on every run. An undischarged site is a violation naming the
site; an unknown external callee makes the audit inconclusive."""
from .common import *
from ..expr import mk_field, peel_upd, norm as _norm


def tnorm(e):
    return _norm(e, keep_typed=True)

from .. import tables as T

U64 = (1 << 64) - 1
TYMAX = {'u8': 255, 'u16': 65535, 'u32': (1 << 32) - 1, 'u64': U64, 'usize': U64, 'char': 0x10FFFF, 'bool': 1,
         'i32': (1 << 31) - 1, 'isize': (1 << 63) - 1, 'i8': 127, 'i64': (1 << 63) - 1}
TYBITS = {'u8': 8, 'u16': 16, 'u32': 32, 'u64': 64, 'usize': 64, 'i32': 32, 'isize': 64, 'i8': 8, 'i64': 64}

# std / dependency functions that can panic, by class
PANICKING = {
    'core::option::Option::<T>::unwrap': 'unwrap',
    'core::option::Option::<T>::expect': 'unwrap',
    'core::result::Result::<T, E>::unwrap': 'unwrap-result',
    'core::result::Result::<T, E>::expect': 'unwrap-result',
    '<alloc::vec::Vec<T, A> as core::ops::index::Index<I>>::index': 'vec-index',
    '<alloc::vec::Vec<T, A> as core::ops::index::IndexMut<I>>::index_mut': 'vec-index',
    'core::str::traits::<impl core::ops::index::Index<I> for str>::index': 'str-slice',
    'alloc::vec::Vec::<T, A>::remove': 'vec-remove',
    'alloc::vec::Vec::<T, A>::swap_remove': 'vec-remove',
    'alloc::vec::Vec::<T, A>::insert': 'vec-remove',
    'arrayvec::arrayvec::ArrayVec::<T, CAP>::push': 'arrayvec-push',
    'core::slice::<impl [T]>::copy_from_slice': 'slice-copy',
    'core::slice::<impl [T]>::split_at': 'slice-split',
    'core::cell::RefCell::<T>::borrow_mut': 'refcell',
}

# external callees known not to panic for any argument (allocation failure ignored)
TOTAL_PREFIX = (
    'core::fmt::', 'core::num::<impl ', 'core::option::Option::<T>::', 'core::result::Result::<T, E>::',
    'core::str::<impl str>::', 'core::str::traits::<impl core::cmp::PartialEq for str>::', 'core::slice::<impl [T]>::iter',
    'core::slice::<impl [T]>::get_unchecked', 'core::slice::<impl [T]>::len', 'core::iter::', 'core::cmp::',
    'core::hint::unreachable_unchecked', 'core::clone::', 'core::ops::function::', 'core::convert::',
    'alloc::vec::Vec::<T, A>::len', 'alloc::vec::Vec::<T, A>::push', 'alloc::vec::Vec::<T, A>::clear',
    'alloc::vec::Vec::<T, A>::clone', 'alloc::vec::Vec::<T>::new', 'alloc::vec::from_elem', 'alloc::slice::',
    'alloc::string::', 'alloc::vec::Vec::<T, A>::iter', 'alloc::vec::Vec::<T, A>::into_boxed_slice',
    'arrayvec::arrayvec::ArrayVec::<T, CAP>::len', 'arrayvec::arrayvec::ArrayVec::<T, CAP>::new',
    'arrayvec::arrayvec::ArrayVec::<T, CAP>::push_unchecked', 'nodrop::imp::NoDrop::<T>::new',
    'core::intrinsics::', 'core::mem::', 'core::core_arch::', 'core::array::', 'alloc::fmt::format', 'alloc::str::<impl str>::',
    'core::hint::must_use', 'alloc::str::',
    # total slice / Vec accessors (return Option / bool / iterators; never panic)
    'core::slice::<impl [T]>::get', 'core::slice::<impl [T]>::first', 'core::slice::<impl [T]>::last',
    'core::slice::<impl [T]>::is_empty', 'core::slice::<impl [T]>::contains', 'alloc::vec::Vec::<T, A>::is_empty',
    'alloc::vec::Vec::<T, A>::as_slice', 'alloc::vec::Vec::<T, A>::as_mut_slice', 'alloc::vec::Vec::<T, A>::with_capacity',
    # char classification / conversion (to_digit panics only for a radix above 36; every radix in this crate is a literal 10)
    'core::char::methods::<impl char>::',
)
TOTAL_CONTAINS = (' as core::iter::traits::', ' as core::ops::deref::Deref', ' as core::cmp::', ' as core::clone::Clone>',
                  ' as core::ops::try_trait::', ' as core::convert::', ' as alloc::string::ToString>', ' as core::fmt::',
                  ' as core::hash::', ' as core::default::Default>', ' as core::ops::function::', ' as core::str::traits::FromStr>',
                  ' as alloc::borrow::', ' as core::ops::bit::', ' as core::ops::arith::', ' as core::iter::adapters::',
                  ' as failure::', 'failure::')


def classify_extern(callee):
    if callee in PANICKING:
        return PANICKING[callee]
    if callee.startswith('core::panicking::') or callee.startswith('std::panicking::') or callee == 'std::rt::begin_panic':
        return 'panic'
    if callee.startswith(TOTAL_PREFIX) or any(x in callee for x in TOTAL_CONTAINS):
        return None
    return 'unknown'


# ------------------------------------------------------------------------------------------------
def call_len(cont):
    """`len` of a Vec / slice value, in the form the audit canonicalises to a length"""
    return ('call', 'alloc::vec::Vec::<T, A>::len', (cont,), (), None)


def private_callers_only(f, key):
    """is `key` called only from inside the crate by name (no trait object / fn pointer use)?  (it is private: yes unless unused)"""
    return any(t.get('callee') == key for b in f.bodies.values() for _, t in b.calls())


class Auditor:
    def __init__(self, ctx, R, config='default'):
        self.ctx = ctx
        self.R = R
        self.config = config
        self.f = ctx.facts(config)
        self.an = ctx.an(config)
        self.eff = ctx.eff(config)
        self.il = inliner(ctx, config)
        self.t = T.Tables(self.f)
        self._inv = {}
        self._varr = {}
        self._pr = {}
        self.reachset = None

    # ---------------------------------------------------------------- reachability
    def reach(self, entries):
        seen = set()
        st = []
        for e in entries:
            if e in self.f.bodies:
                st.append(e)
                seen.add(e)
        while st:
            k = st.pop()
            body = self.f.bodies[k]
            nxt = set()
            for (c, d, r) in self.eff.callees.get(k, ()):
                nxt.update(self.eff.targets(c, d, r))
            # Display / Debug impls reached through format_args!
            for _, t in body.calls():
                c = t.get('callee') or ''
                if 'Argument' in c and (c.endswith('new_display') or c.endswith('new_debug')):
                    for g in t.get('gargs', []):
                        tr = 'core::fmt::Display' if c.endswith('display') else 'core::fmt::Debug'
                        key = '<%s as %s>::fmt' % (g.lstrip('&'), tr)
                        if key in self.f.bodies:
                            nxt.add(key)
            for cl in self.f.closures_of(k):
                nxt.add(cl.key)
            for n in nxt:
                if n not in seen and n in self.f.bodies:
                    seen.add(n)
                    st.append(n)
        return seen

    # ---------------------------------------------------------------- types
    def type_of(self, e, s):
        t = e[0]
        if t == 'typed':
            return e[1]
        if t == 'param':
            ty = s.body.locals[e[1]]['ty']
            return ty
        if t == 'mem' and e[1][0] == 'p':
            ty = s.body.locals[e[1][1]]['ty']
            return ty.lstrip('&').replace('mut ', '', 1) if ty.startswith('&') else ty
        if t == 'mem' and e[1][0] == 'h':
            ty = self.type_of(e[1][1], s)
            if ty and ty.startswith('&'):
                return ty.lstrip('&').replace('mut ', '', 1)
            return None
        if t == 'field':
            bt = self.type_of(e[1], s)
            if bt:
                bt = bt.lstrip('&').replace('mut ', '', 1) if bt.startswith('&') else bt
                base = bt.split('<')[0]
                a = self.f.adts.get(base)
                if a:
                    for v in a['variants']:
                        for fl in v['fields']:
                            if fl['name'] == e[2]:
                                return fl['ty']
            return None
        if t == 'index':
            bt = self.type_of(e[1], s)
            if bt and bt.startswith('[') and ';' in bt:
                return bt[1:-1].rsplit(';', 1)[0].strip()
            if bt and bt.startswith('['):
                return bt[1:-1]
            return None
        if t == 'cast':
            return e[2]
        if t == 'int':
            return e[2]
        if t == 'enum':
            return e[1]
        if t == 'call':
            fn = self.f.fns.get(e[1])
            if fn:
                return fn['output']
            return None
        if t == 'constdef':
            return e[2] if len(e) > 2 and isinstance(e[2], str) else None
        return None

    # ---------------------------------------------------------------- ranges
    def lenof(self, e):
        """canonical 'length of container' for len()-like expressions, else None"""
        if not e or not isinstance(e[0], str):
            return None
        if e[0] == 'call' and e[1] in ('alloc::vec::Vec::<T, A>::len', 'arrayvec::arrayvec::ArrayVec::<T, CAP>::len',
                                      'core::slice::<impl [T]>::len', 'core::str::<impl str>::len'):
            return ('lenof', self.container(e[2][0]))
        if e[0] == 'un' and e[1] == 'PtrMetadata':
            return ('lenof', self.container(e[2]))
        return None

    def str_slice_len(self, e):
        """exact byte length of `text.get(a..a+k)` (through ?, ok_or, Some payloads, as_bytes): k"""
        x = norm(e)
        for _ in range(12):
            if not isinstance(x, tuple) or not x:
                return None
            if x[0] == 'mem' and isinstance(x[1], tuple) and x[1] and x[1][0] == 'h':
                x = x[1][1]
            elif x[0] == 'deref':
                x = x[1]
            elif x[0] == 'field' and x[2] == '0' and x[1][0] == 'variant' and x[1][2] in ('Some', 'Continue', 'Ok'):
                x = x[1][1]
            elif x[0] == 'call' and x[1] in ('<core::result::Result<T, E> as core::ops::try_trait::Try>::branch',
                                             '<core::option::Option<T> as core::ops::try_trait::Try>::branch',
                                             'core::option::Option::<T>::ok_or', 'core::option::Option::<T>::ok_or_else',
                                             'core::str::<impl str>::as_bytes') and x[2]:
                x = x[2][0]
            elif x[0] == 'call' and x[1] == 'core::str::<impl str>::get' and len(x[2]) == 2:
                r = x[2][1]
                if r[0] == 'agg' and r[1] == 'core::ops::range::Range':
                    fs = dict(r[3])
                    a, b = fs.get('start'), fs.get('end')
                    if a is not None and b is not None:
                        if b[0] == 'bin' and b[1] == 'Add' and b[2] == a and b[3][0] == 'int':
                            return b[3][1]
                        if a[0] == 'int' and b[0] == 'int' and b[1] >= a[1]:
                            return b[1] - a[1]
                return None
            else:
                return None
        return None

    def container(self, c):
        c = norm(c)
        if c[0] == 'param':
            return ('mem', ('p', c[1]))
        if c[0] == 'ref':
            if c[1][0] == 'p' and all(el[0] == 'f' for el in c[2]):
                x = ('mem', c[1])
                for el in c[2]:
                    x = ('field', x, el[1])
                return x
            return ('place', c[1], c[2])
        return c

    def canon(self, e, _normed=False):
        """normal form for comparisons: inlined, lengths canonicalised"""
        if not isinstance(e, tuple) or not e:
            return e
        if not _normed:
            memo = self.__dict__.setdefault('_canon_memo', {})
            hit = memo.get(id(e))
            if hit is not None and hit[0] is e:
                return hit[1]
            r = self.canon(norm(e) if isinstance(e[0], str) else e, True)
            memo[id(e)] = (e, r)
            return r
        if e and e[0] == 'ref' and len(e) == 3 and e[1][0] == 'p' and all(el[0] == 'f' for el in e[2]):
            x = ('mem', e[1])
            for el in e[2]:
                x = ('field', x, el[1])
            e = x
        l = self.lenof(e)
        if l is not None:
            return l
        if isinstance(e, tuple):
            return tuple(self.canon(x, True) if isinstance(x, tuple) else x for x in e)
        return e

    def rng(self, e, s, blk, env=(), depth=0):
        """(lo, hi) of an unsigned integer valued origin expression at block blk, or None"""
        if depth > 40 or not isinstance(e, tuple) or not e:
            return None
        r = self._rng(e, s, blk, env, depth)
        # refine by assumptions (path conditions and dominating guards)
        ce = self.canon(e)
        for (c, truthv) in env:
            r = self.refine(r, ce, c, truthv, s, blk, depth)
        return r

    def refine(self, r, ce, c, truthv, s, blk, depth):
        if c[0] == 'in' and truthv and self.canon(c[1]) == ce:
            vals = [v for v in c[2] if isinstance(v, int)]
            if vals:
                lo, hi = min(vals), max(vals)
                if r:
                    lo, hi = max(lo, r[0]), min(hi, r[1])
                return (lo, hi)
        if c[0] == 'bin' and c[1] in ('Lt', 'Le', 'Gt', 'Ge', 'Eq', 'Ne') and truthv in (True, False):
            a, b = self.canon(c[2]), self.canon(c[3])
            op = c[1]
            if not truthv:
                op = {'Lt': 'Ge', 'Ge': 'Lt', 'Gt': 'Le', 'Le': 'Gt', 'Eq': 'Ne', 'Ne': 'Eq'}[op]
            lo, hi = r if r else (0, None)
            if a == ce:
                k = self.rng(c[3], s, blk, (), depth + 1)
                if k:
                    if op == 'Lt':
                        hi = k[1] - 1 if hi is None else min(hi, k[1] - 1)
                    elif op == 'Le':
                        hi = k[1] if hi is None else min(hi, k[1])
                    elif op == 'Gt':
                        lo = max(lo, k[0] + 1)
                    elif op == 'Ge':
                        lo = max(lo, k[0])
                    elif op == 'Eq':
                        lo, hi = max(lo, k[0]), (k[1] if hi is None else min(hi, k[1]))
                    elif op == 'Ne' and k[0] == k[1] == 0:
                        lo = max(lo, 1)
            elif b == ce:
                k = self.rng(c[2], s, blk, (), depth + 1)
                if k:
                    if op == 'Gt':
                        hi = k[1] - 1 if hi is None else min(hi, k[1] - 1)
                    elif op == 'Ge':
                        hi = k[1] if hi is None else min(hi, k[1])
                    elif op == 'Lt':
                        lo = max(lo, k[0] + 1)
                    elif op == 'Le':
                        lo = max(lo, k[0])
            if hi is None:
                if lo > 0:
                    return (lo, (1 << 64) - 1)     # only a lower bound so far (`'1' <= c`); an upper bound may follow
                return r if r else None
            return (lo, hi)
        return r

    def _rng(self, e, s, blk, env, depth):
        t = e[0]
        d = depth + 1
        if t == 'typed':
            r = self.rng(e[2], s, blk, env, d)
            if r:
                return r
            return None
        if t == 'int':
            return (e[1], e[1])
        if t == 'enum':
            v = self.f.enum_discr(e[1], e[2])
            return (v, v) if v is not None else None
        if t == 'constref':
            return self.rng(e[1], s, blk, env, d)
        if t == 'cast':
            r = self.rng(e[1], s, blk, env, d)
            m = TYMAX.get(e[2])
            if r and m is not None and r[1] <= m:
                return r
            if m is not None:
                return (0, m)
            return None
        if t == 'discr' and e[1][0] == 'ite':
            lo, hi = None, None
            for v, x in e[1][2]:
                if x == ('never',):
                    continue
                r = self.rng(('discr', x), s, blk, env, d)
                if not r:
                    return None
                lo = r[0] if lo is None else min(lo, r[0])
                hi = r[1] if hi is None else max(hi, r[1])
            return (lo, hi) if lo is not None else None
        if t == 'discr' and e[1][0] == 'enum':
            v = self.f.enum_discr(e[1][1], e[1][2])
            return (v, v) if v is not None else None
        if t == 'discr':
            ty = self.type_of(e[1], s)
            a = self.f.adts.get((ty or '').lstrip('&'))
            if a and a['kind'] == 'enum':
                ds = [int(v['discr']) for v in a['variants']]
                return (min(ds), max(ds))
            return None
        if t == 'field':
            # the element of a `for i in a..b` loop: 0 <= i < b
            if e[2] == '0' and e[1][0] == 'variant' and e[1][2] == 'Some' and e[1][1][0] == 'call' and 'Range' in str(e[1][1][1]) and depth < 30:
                end_ = self.range_elem(e, s)
                if end_ is not None:
                    re_ = self.rng(tnorm(self.il.inline(end_)), s, blk, env, d)
                    if re_ and re_[1] >= 1:
                        return (0, re_[1] - 1)
            if e[2] == '0' and e[1][0] == 'bin' and False:
                return None
            ty = self.type_of(e, s)
            bty = self.type_of(e[1], s)
            if bty and bty.lstrip('&').replace('mut ', '') == 'square::Square' and e[2] == '0':
                return (0, 63)
            # field of a constant table entry: range from the data
            dr = self.data_range(e)
            if dr:
                return dr
            inv = self.field_invariant(e, s)
            if inv:
                return inv
            if ty in TYMAX:
                return (0, TYMAX[ty])
            return None
        if t == 'index':
            dr = self.data_range(e)
            if dr:
                return dr
            ty = self.type_of(e, s)
            if ty in TYMAX:
                return (0, TYMAX[ty])
            return None
        if t == 'bin':
            op = e[1]
            a = self.rng(e[2], s, blk, env, d)
            b = self.rng(e[3], s, blk, env, d)
            if op == 'BitAnd':
                cands = [x[1] for x in (a, b) if x]
                return (0, min(cands)) if cands else None
            if not a or not b:
                return None
            if op in ('Add', 'AddUnchecked'):
                return (a[0] + b[0], a[1] + b[1])
            if op in ('Sub', 'SubUnchecked'):
                return (max(0, a[0] - b[1]), max(0, a[1] - b[0]))
            if op in ('Mul', 'MulUnchecked'):
                return (a[0] * b[0], a[1] * b[1])
            if op in ('Shr', 'ShrUnchecked'):
                return (a[0] >> min(b[1], 127), a[1] >> min(b[0], 127))
            if op in ('Shl', 'ShlUnchecked') and b[0] == b[1]:
                return (a[0] << b[0], a[1] << b[0])
            if op in ('BitOr', 'BitXor'):
                n = max(a[1], b[1]).bit_length()
                return (0, (1 << n) - 1)
            if op == 'Rem' and b[1] > 0:
                return (0, b[1] - 1)
            if op in ('Eq', 'Ne', 'Lt', 'Le', 'Gt', 'Ge'):
                return (0, 1)
            return None
        if t == 'ite':
            lo, hi = None, None
            for v, x in e[2]:
                if x == ('never',):
                    continue
                env2 = env + self.cond_env(e[1], v, [cv for cv, _ in e[2]])
                r = self.rng(x, s, blk, env2, d)
                if not r:
                    return None
                lo = r[0] if lo is None else min(lo, r[0])
                hi = r[1] if hi is None else max(hi, r[1])
            return (lo, hi) if lo is not None else None
        if t == 'call':
            c = e[1]
            name = c.rsplit('::', 1)[-1]
            if c.startswith('core::num::<impl ') and name in ('count_ones', 'trailing_zeros', 'leading_zeros', 'count_zeros'):
                ty = c[len('core::num::<impl '):].split('>')[0]
                bits = TYBITS.get(ty, 64)
                if name in ('trailing_zeros', 'leading_zeros') and e[2]:
                    # a non-zero word has at most bits-1 leading / trailing zeros
                    x = self.canon(e[2][0])
                    for cnd, tv in env:
                        if cnd[0] == 'bin' and cnd[1] in ('Eq', 'Ne') and ((cnd[1] == 'Eq') != bool(tv)):
                            a_, b_ = self.canon(cnd[2]), self.canon(cnd[3])
                            if (a_ == x and b_[0] == 'int' and b_[1] == 0) or (b_ == x and a_[0] == 'int' and a_[1] == 0):
                                return (0, bits - 1)
                return (0, bits)
            if name in ('unwrap', 'expect', 'unwrap_or') and e[2] and isinstance(e[2][0], tuple) and e[2][0] and e[2][0][0] == 'call' and \
                    e[2][0][1].endswith('::to_digit') and len(e[2][0][2]) == 2 and e[2][0][2][1][0] == 'int':
                # char::to_digit(radix) is Some(d) with d < radix
                hi_ = e[2][0][2][1][1] - 1
                if name == 'unwrap_or' and len(e[2]) == 2:
                    o_ = self.rng(e[2][1], s, blk, env, d)
                    return (0, max(hi_, o_[1])) if o_ else None
                return (0, hi_)
            if c.startswith('core::num::<impl ') and name.startswith('wrapping_'):
                ty = c[len('core::num::<impl '):].split('>')[0]
                return (0, TYMAX.get(ty, U64))
            if c.startswith('core::num::<impl ') and name in ('saturating_sub', 'wrapping_sub') and e[2]:
                a = self.rng(e[2][0], s, blk, env, d)
                if name == 'saturating_sub' and a:
                    return (0, a[1])
                return (0, U64)
            if c == 'arrayvec::arrayvec::ArrayVec::<T, CAP>::len':
                cap = [g for g in e[3] if str(g).isdigit()] if len(e) > 3 and e[3] is not ANY else []
                return (0, int(cap[0])) if cap else (0, (1 << 63) - 1)
            if name == 'len' and ('Vec' in c or 'str' in c or 'slice' in c):
                k = self.str_slice_len(e[2][0]) if e[2] else None
                if k is not None:
                    return (k, k)
                # length of a constant array (`ALL_RANKS.len()`): from its type `[T; N]`
                a0 = norm(e[2][0]) if e[2] else None
                while isinstance(a0, tuple) and a0 and a0[0] in ('constref', 'deref') :
                    a0 = a0[1]
                if isinstance(a0, tuple) and a0 and a0[0] == 'array' and isinstance(a0[1], tuple):
                    return (len(a0[1]), len(a0[1]))
                if isinstance(a0, tuple) and a0 and a0[0] == 'constdef':
                    cdef = self.f.consts.get(a0[1]) or {}
                    import re as _re
                    mm_ = _re.search(r';\s*(\d+)\]\s*$', str(a0[2] if len(a0) > 2 and isinstance(a0[2], str) else cdef.get('ty', '')))
                    if mm_:
                        return (int(mm_.group(1)), int(mm_.group(1)))
                return (0, (1 << 63) - 1)
            if c in self.f.bodies and '::{' not in c:
                r = self.ret_range(c)
                if r:
                    return r
            fn = self.f.fns.get(c)
            if fn and fn['output'] in TYMAX:
                return (0, TYMAX[fn['output']])
            return None
        if t == 'un' and e[1] == 'PtrMetadata':
            k = self.str_slice_len(e[2])
            if k is not None:
                return (k, k)
            return (0, (1 << 63) - 1)
        if t == 'var':
            from ..expr import VAR_DEFS
            if e in self._varr:
                return self._varr[e]
            self._varr[e] = None
            dfn = VAR_DEFS.get(e)
            r = self.rng(dfn, s, blk, (), d) if dfn is not None else None
            self._varr[e] = r
            return r
        if t == 'param':
            ty = s.body.locals[e[1]]['ty']
            pr = self.param_range(s.body.key, e[1])
            if pr:
                return pr
            if ty in TYMAX:
                return (0, TYMAX[ty])
            return None
        if t == 'loop':
            return self.loop_range(e, s, blk, d)
        if t == 'lenof':
            return (0, (1 << 63) - 1)
        return None

    def ret_range(self, key):
        """range of the value a crate function returns, whatever its arguments (from its own body: parameter types,
        type invariants, masks)"""
        memo = self.__dict__.setdefault('_retr', {})
        if key in memo:
            return memo[key]
        memo[key] = None
        cs = self.an.summary(key)
        if cs is None or cs.ret is None:
            return None
        saved = self.reachset
        self.reachset = None          # no call-site information: the bound must hold for every caller
        try:
            r = self.rng(tnorm(self.il.inline(cs.ret)), cs, 0, ())
        finally:
            self.reachset = saved
        memo[key] = r
        return r

    def param_range(self, fnkey, n):
        """range of integer parameter n of fnkey over all call sites inside the audited call graph"""
        k = (fnkey, n)
        if k in self._pr:
            return self._pr[k]
        self._pr[k] = None
        if self.reachset is None or '::{' in fnkey:
            return None
        lo, hi = None, None
        found = False
        for caller in self.reachset:
            body = self.f.bodies.get(caller)
            if body is None or not any(t.get('callee') == fnkey for _, t in body.calls()):
                continue
            cs = self.an.summary(caller)
            for c in cs.calls_to(fnkey):
                found = True
                if n - 1 >= len(c['argvals']):
                    return None
                a = tnorm(self.il.inline(c['argvals'][n - 1]))
                r = self.rng(a, cs, c['blk'], self.guard_env(cs, c['blk']))
                if not r:
                    return None
                lo = r[0] if lo is None else min(lo, r[0])
                hi = r[1] if hi is None else max(hi, r[1])
        if not found:
            return None
        self._pr[k] = (lo, hi)
        return (lo, hi)

    def cond_env(self, cond, val, allvals):
        """assumption contributed by taking case `val` of a switch on cond"""
        if set(allvals) == {0, 'otherwise'}:
            return ((cond, val == 'otherwise'),)
        if val != 'otherwise':
            return ((('bin', 'Eq', cond, ('int', val, 'usize')), True),)
        return ()

    def data_range(self, e):
        """range of an entry (field) of a constant table, from the compiled-in data"""
        fld = None
        x = e
        if x[0] == 'field':
            fld = x[2]
            x = x[1]
        while x[0] == 'index':
            x = x[1]
        if x[0] != 'constdef':
            return None
        c = self.f.consts.get(x[1])
        if not c or 'bytes' not in c:
            return None
        ty = c['ty']
        elem = ty
        while elem.startswith('['):
            elem = elem[1:-1].rsplit(';', 1)[0].strip()
        if fld is not None:
            recs = self.t.structs(x[1], elem)
            if recs and fld in recs[0]:
                vals = [r[fld] for r in recs]
                return (min(vals), max(vals))
            if elem == 'bitboard::BitBoard' and fld == '0':
                return (0, U64)
            return None
        if elem == 'u8':
            vals = self.t.u8s(x[1])
            return (min(vals), max(vals))
        a = self.f.adts.get(elem)
        if a and a['kind'] == 'enum' and a.get('size') == 1:
            vals = self.t.u8s(x[1])
            return (min(vals), max(vals))
        return None

    def loop_range(self, e, s, blk, depth):
        """('loop', h, root): accumulator pattern  x = init; for .. { x = x (+ t)? }"""
        h, root = e[1], e[2]
        if isinstance(root, tuple) and root and root[0] in ('l', 'p', 'h') and len(root) == 2 and not isinstance(root[1], tuple) or \
                (isinstance(root, tuple) and len(root) == 2 and isinstance(root[0], tuple)):
            pass
        loops = [l for l in for_loops(s) if l['header'] == h]
        if not loops:
            return None
        l = loops[0]
        fieldroot = isinstance(root[0], tuple)
        r0 = root[0] if fieldroot else root
        def get(state):
            v = state.get(r0)
            if v is None:
                return None
            return mk_field(v, root[1], self.an) if fieldroot else v
        init = get(s.exit[l['pre']]) if l['pre'] is not None else None
        latch = loop_latch_value(s, l, r0)
        if latch is not None and fieldroot:
            latch = mk_field(latch, root[1], self.an)
        if init is None or latch is None:
            return None
        ri = self.rng(init, s, blk, (), depth)
        if not ri:
            return None
        # trip count bound
        trips = self.trip_bound(l, s, blk, depth)
        if trips is None:
            return None
        tmax = 0
        for conds, leaf in paths_deep(norm(latch), limit=2000):
            leaf_n = leaf
            if leaf_n == norm(e):
                continue
            if leaf_n[0] == 'int':
                ri = (min(ri[0], leaf_n[1]), max(ri[1], leaf_n[1]))
                continue
            if leaf_n[0] == 'loop':
                ro = self.rng(leaf_n, s, blk, (), depth) if leaf_n != norm(e) else None
                if ro:
                    ri = (min(ri[0], ro[0]), max(ri[1], ro[1]))
                    continue
            if not any(x == norm(e) for x in walk(leaf_n)):
                # a value that does not depend on the accumulator (a reset)
                ro = self.rng(leaf_n, s, blk, (), depth)
                if not ro:
                    return None
                ri = (min(ri[0], ro[0]), max(ri[1], ro[1]))
                continue
            if leaf_n[0] == 'bin' and leaf_n[1] == 'Add' and norm(e) in (leaf_n[2], leaf_n[3]):
                other = leaf_n[3] if leaf_n[2] == norm(e) else leaf_n[2]
                ro = self.rng(other, s, blk, (), depth)
                if not ro:
                    return None
                tmax = max(tmax, ro[1])
            else:
                return None
        return (ri[0], ri[1] + trips * tmax)

    def trip_bound(self, l, s, blk, depth):
        src = norm(l['source']) if l['source'] is not None else None
        if src is None:
            return None
        if src[0] == 'agg' and src[1] == 'core::ops::range::Range':
            end = dict(src[3]).get('end')
            r = self.rng(end, s, blk, (), depth)
            return r[1] if r else None
        ty = l['next']['callee']
        if 'bitboard::BitBoard as core::iter::traits::iterator::Iterator' in ty:
            return 64
        x = src
        while x[0] == 'call' and x[1] in ('core::iter::traits::iterator::Iterator::rev', 'core::slice::<impl [T]>::iter') and x[2]:
            x = x[2][0]
        if x[0] == 'constdef':
            c = self.f.consts.get(x[1])
            if c:
                aty = self.il.resolve_array_ty(c['ty'])
                if aty.startswith('[') and ';' in aty:
                    n = aty[1:-1].rsplit(';', 1)[1].strip()
                    if n.isdigit():
                        return int(n)
        return None

    def field_invariant(self, e, s):
        """range of a private integer field established by all its writers (struct invariant)"""
        if e[0] != 'field' or e[1][0] != 'mem':
            return None
        bty = self.type_of(e[1], s)
        if not bty:
            return None
        adt = bty.lstrip('&').replace('mut ', '')
        key = (adt, e[2])
        if key in self._inv:
            return self._inv[key]
        self._inv[key] = None
        a = self.f.adts.get(adt)
        if not a:
            return None
        fl = [x for x in a['variants'][0]['fields'] if x['name'] == e[2]]
        if not fl or fl[0]['pub'] or fl[0]['ty'] not in TYMAX:
            return None
        lo, hi = None, None
        # literals
        for k, body in self.f.bodies.items():
            if '::{promoted' in k:
                continue
            has = any(st['k'] == 'assign' and st['rv']['rv'] == 'agg' and st['rv'].get('adt') == adt
                      for bi in body.reachable() for st in body.blocks[bi]['stmts'])
            if has:
                ss = self.an.summary(k)
                for x in walk(norm(ss.ret)) if ss and ss.ret else ():
                    if x[0] == 'agg' and x[1] == adt:
                        v = dict(x[3]).get(e[2])
                        r = self.rng(v, ss, 0) if v is not None else None
                        if not r:
                            return None
                        lo = r[0] if lo is None else min(lo, r[0])
                        hi = r[1] if hi is None else max(hi, r[1])
        if hi is None:
            return None
        # iterate: assume [lo, hi], check writers keep it; widen hi a few times
        writers = [k for k in self.eff.direct if (adt, e[2]) in self.eff.direct[k] and '::{' not in k]
        for _ in range(6):
            self._inv[key] = (lo, hi)
            ok = True
            for k in writers:
                ss = self.an.summary(k)
                for root, v in ss.final.items():
                    if root[0] != 'p':
                        continue
                    if self.type_of(('mem', root), ss) != adt:
                        continue
                    nv = mk_field(v, e[2], self.an)
                    r = self.rng(norm(self.il.inline(nv)), ss, 0)
                    if not r:
                        self._inv[key] = None
                        return None
                    if r[0] < lo or r[1] > hi:
                        ok = False
                        lo, hi = min(lo, r[0]), max(hi, r[1])
            if ok:
                return (lo, hi)
        self._inv[key] = None
        return None

    # ---------------------------------------------------------------- guards as assumptions
    def _inl(self, e):
        memo = self.__dict__.setdefault('_inl_memo', {})
        hit = memo.get(id(e))
        if hit is not None and hit[0] is e:
            return hit[1]
        r = norm(self.il.inline(e))
        memo[id(e)] = (e, r)
        return r

    def guard_env(self, s, blk):
        gmemo = self.__dict__.setdefault('_genv_memo', {})
        k_ = (id(s), blk)
        if k_ in gmemo:
            return gmemo[k_]
        r_ = self._guard_env(s, blk)
        gmemo[k_] = r_
        return r_

    def _guard_env(self, s, blk):
        env = []
        for g in guards(s, blk):
            if g['cond'] is None:
                continue
            c = self._inl(g['cond'])
            tv = truth(g)
            if tv is not None:
                env.append((c, tv))
                # `matches!(x, a | b | ..)` / a boolean temp computed by a match: the guard on the temp is a membership fact
                neg, y = False, c
                while y[0] == 'un' and y[1] == 'Not':
                    neg, y = not neg, y[2]
                if y[0] == 'ite' and all(l[0] == 'int' and l[2] == 'bool' for _, l in y[2]):
                    want = int(tv != neg)
                    listed = [v for v, l in y[2] if v != 'otherwise']
                    sel = [v for v, l in y[2] if v != 'otherwise' and l[1] == want]
                    oth = [l[1] for v, l in y[2] if v == 'otherwise']
                    if oth and oth[0] != want:
                        env.append((('in', y[1], tuple(sel)), True))
                    elif oth and oth[0] == want and len(sel) == 0:
                        env.append((('notin', y[1], tuple(listed)), True))
            elif g['vals'] and 'otherwise' not in g['vals']:
                env.append((('in', c, tuple(g['vals'])), True))
                # `match v.get(k) { Some(x) => .. }`: on the Some arm the container has more than k elements
                if c[0] == 'discr' and c[1][0] == 'call' and c[1][1] in ('core::slice::<impl [T]>::get',) and g['vals'] == [1] and \
                        len(c[1][2]) == 2 and c[1][2][1][0] == 'int':
                    cont = c[1][2][0]
                    env.append((('bin', 'Gt', ('lenof', self.canon(cont)) if False else call_len(cont), c[1][2][1]), True))
            elif g['vals'] == ['otherwise']:
                env.append((('notin', c, tuple(v for v in g['all'] if v != 'otherwise')), True))
        # asserts that dominate blk are facts too
        for a in s.asserts:
            if a['blk'] != blk and s.cfg.dominates(a['blk'], blk):
                env.append((self._inl(a['cond']), a['expected']))
        return tuple(env)

    def in_set(self, e, env):
        ce = self.canon(e)
        for c, tv in env:
            if c[0] == 'in' and self.canon(c[1]) == ce:
                return c[2]
        return None

    # ---------------------------------------------------------------- discharge
    def discharge_assert(self, s, a):
        kind = a['kind']
        blk = a['blk']
        env = self.guard_env(s, blk)
        ops = [tnorm(self.il.inline(o)) for o in a['ops']]
        cond = tnorm(self.il.inline(a['cond']))
        if kind == 'bounds':
            ln, idx = ops
            ri = self.rng(idx, s, blk, env)
            rl = self.rng(ln, s, blk, env)
            if ri and rl and ri[1] < rl[0]:
                return 'range: index <= %d < length >= %d' % (ri[1], rl[0])
            # the index as written (`sq.to_index()`): the range of what that function returns for any argument
            ri0 = self.rng(tnorm(a['ops'][1]), s, blk, env)
            if ri0 and rl and ri0[1] < rl[0]:
                return 'range: index (as returned by the callee for any argument) <= %d < length >= %d' % (ri0[1], rl[0])
            # symbolic: a dominating comparison index < L with L the same length
            cl = self.canon(ln)
            ci = self.canon(idx)
            for c, tv in env:
                if c[0] == 'bin' and c[1] in ('Lt', 'Ge'):
                    if self.canon(c[2]) == ci and self.canon(c[3]) == cl and ((c[1] == 'Lt') == tv):
                        return 'guard: dominated by index < len of the same container'
            # index drawn from Range{.., end = len}
            rl_ = self.range_elem(idx, s)
            if rl_ is not None and self.canon(rl_) == cl:
                return 'range-iterator: index comes from start..len of the same container'
            if ri and cl[0] == 'lenof':
                pass
            return None
        if kind.startswith('overflow:'):
            op = kind.split(':', 1)[1]
            a_, b_ = ops
            ta = self.type_of(a_, s) or (a_[2] if a_[0] == 'int' else None) or 'usize'
            ra = self.rng(a_, s, blk, env)
            rb = self.rng(b_, s, blk, env)
            mx = TYMAX.get(ta if ta in TYMAX else 'usize')
            for x in (a_, b_):
                if x[0] == 'int' and x[2] in TYMAX:
                    mx = TYMAX[x[2]]
            if op in ('Shl', 'Shr'):
                bits = TYBITS.get(ta, 64)
                if a_[0] == 'int' and a_[2] in TYBITS:
                    bits = TYBITS[a_[2]]
                if rb and rb[1] < bits:
                    return 'range: shift amount <= %d < %d bits' % (rb[1], bits)
                return None
            if not ra or not rb:
                # x + 1 where x < y is dominated
                if op == 'Add' and rb and rb[1] <= 1:
                    ca = self.canon(a_)
                    for c, tv in env:
                        if c[0] == 'bin' and ((c[1] == 'Lt' and tv and self.canon(c[2]) == ca) or
                                              (c[1] == 'Ge' and not tv and self.canon(c[2]) == ca)):
                            return 'guard: x < y dominates x + 1'
                return None
            if op == 'Add' and ra[1] + rb[1] <= mx:
                return 'range: %d + %d fits' % (ra[1], rb[1])
            if op == 'Mul' and ra[1] * rb[1] <= mx:
                return 'range: %d * %d fits' % (ra[1], rb[1])
            if op == 'Sub':
                if ra[0] >= rb[1]:
                    return 'range: minuend >= %d >= subtrahend <= %d' % (ra[0], rb[1])
                sa = self.in_set(a_, env)
                if sa is not None and min(sa) >= rb[1]:
                    return 'switch: minuend in {%s..%s} >= %d' % (min(sa), max(sa), rb[1])
                # (x as T) - c where x is constrained by a switch
                if a_[0] == 'cast':
                    sa = self.in_set(a_[1], env)
                    if sa is not None and min(sa) >= rb[1]:
                        return 'switch: minuend in {%s..%s} >= %d' % (min(sa), max(sa), rb[1])
                    if a_[1][0] == 'bin':
                        pass
                if a_[0] == 'bin' and a_[1] == 'Add':
                    for part in (a_[2], a_[3]):
                        p = part[1] if part[0] == 'cast' else part
                        sa = self.in_set(p, env)
                        if sa is not None and min(sa) >= rb[1]:
                            return 'switch: a summand of the minuend is in {%s..%s} >= %d' % (min(sa), max(sa), rb[1])
            return None
        return None

    def range_elem(self, idx, s):
        """if idx is the element of a `for i in a..b` loop return b"""
        m = match(('field', ('variant', V('n'), 'Some'), '0'), idx)
        if m is None or m['n'][0] != 'call' or 'Range' not in m['n'][1]:
            return None
        for l in for_loops(s):
            if norm(l['next']['result']) == m['n'] and l['source'] is not None:
                src = norm(l['source'])
                if src[0] == 'agg' and src[1] == 'core::ops::range::Range':
                    return dict(src[3]).get('end')
        return None

    def len_lo(self, L, env, s, blk):
        """lower bound of a length from the guards in force"""
        lo = 0
        for cnd, tv in env:
            if cnd[0] == 'bin' and cnd[1] in ('Lt', 'Ge', 'Gt', 'Le', 'Eq', 'Ne'):
                a_, b_ = self.canon(cnd[2]), self.canon(cnd[3])
                if a_ == L:
                    k = self.rng(cnd[3], s, blk, ())
                    if k:
                        if (cnd[1] == 'Lt' and not tv) or (cnd[1] == 'Ge' and tv):
                            lo = max(lo, k[0])
                        if (cnd[1] == 'Gt' and tv) or (cnd[1] == 'Le' and not tv):
                            lo = max(lo, k[0] + 1)
                        if (cnd[1] == 'Eq' and not tv and k == (0, 0)) or (cnd[1] == 'Ne' and tv and k == (0, 0)):
                            lo = max(lo, 1)
            if cnd[0] == 'call' and cnd[1].endswith('::is_empty') and tv is False and cnd[2] and \
                    ('lenof', self.container(cnd[2][0])) == L:
                lo = max(lo, 1)
        return lo

    def first_char(self, s, c, x, env):
        """`text.chars().next()` on a fresh iterator is Some when the text has at least one byte"""
        if not (x[0] == 'call' and 'str::iter::Chars' in x[1] and x[1].endswith('::next') and x[2] and x[2][0][0] == 'ref'):
            return None
        r = x[2][0]
        inits = [norm(st['value']) for st in s.stores if st['target'] == r] + [norm(c_['result']) for c_ in s.calls if c_.get('dest') == r]
        if len(inits) != 1:
            return None
        m = match(call('core::str::<impl str>::chars', V('s')), inits[0])
        if m is None:
            return None
        nexts = [c_ for c_ in s.calls if c_['callee'] == x[1] and c_['args'] and c_['args'][0] == r]
        others = [c_ for c_ in s.calls if c_['callee'] != x[1] and any(a == r for a in c_['args'])]
        if len(nexts) != 1 or others:
            return None
        nb = nexts[0]['blk']
        if any(nb in s.cfg.reachable_from(y) for y in s.cfg.succ[nb]):
            return None
        if self.len_lo(('lenof', self.container(m['s'])), env, s, c['blk']) >= 1:
            return 'utf8: a string of >= 1 byte has a first character (fresh chars() iterator, single next())'
        return None

    def discharge_call(self, s, c, kind):
        blk = c['blk']
        env = self.guard_env(s, blk)
        args = [tnorm(self.il.inline(a)) for a in c['argvals']]
        raw = [norm(a) for a in c['argvals']]
        if kind == 'unwrap':
            x = raw[0]
            if x[0] == 'agg' and x[2] == 'Some':
                return 'literal Some'
            for g, tv in [(norm(gg['cond']), truth(gg)) for gg in guards(s, blk) if gg['cond'] is not None]:
                if match(call('core::option::Option::<T>::is_some', x), g) is not None and tv is True:
                    return 'guard: is_some() on the same value'
                if match(call('core::option::Option::<T>::is_none', x), g) is not None and tv is False:
                    return 'guard: !is_none() on the same value'
            for gg in guards(s, blk):
                if gg['cond'] is not None and norm(gg['cond']) == ('discr', x) and gg['vals'] == [1]:
                    return 'guard: matched Some on the same value'
            # `c.to_digit(10)` is Some for a character known to be a decimal digit (a `'1'..='8'` arm, say)
            if x[0] == 'call' and x[1].endswith('::to_digit') and len(x[2]) == 2 and x[2][1][0] == 'int' and x[2][1][1] >= 10:
                rc = self.rng(tnorm(self.il.inline(x[2][0])), s, blk, env)
                if rc is None:
                    vals_ = self.in_set(norm(x[2][0]), env)
                    rc = (min(vals_), max(vals_)) if vals_ else None
                if rc and 48 <= rc[0] and rc[1] <= 57:
                    return 'guard: the character is in %s..=%s, a decimal digit' % (chr(rc[0]), chr(rc[1]))
            # colour of a square that piece_on just found occupied (the occupancy views agree on every Board: C03.R1)
            m = match(call('board::Board::color_on', V('b'), V('sq')), x)
            if m is not None:
                po = call('board::Board::piece_on', m['b'], m['sq'])
                for gg in guards(s, blk):
                    if gg['cond'] is None:
                        continue
                    g = norm(gg['cond'])
                    if (g[0] == 'discr' and match(po, g[1]) is not None and gg['vals'] == [1]) or \
                            (match(call('core::option::Option::<T>::is_some', po), g) is not None and truth(gg) is True):
                        return 'guard: piece_on of the same square is Some, and the piece and colour views agree on every Board (C03.R1)'
            return self.first_char(s, c, x, env)
        if kind == 'vec-index':
            vec, idx = raw[0], args[1]
            L = ('lenof', self.container(vec))
            ri = self.rng(idx, s, blk, env)
            lo = self.len_lo(L, env, s, blk)
            if ri and ri[1] < lo:
                return 'guard: len >= %d > index <= %d' % (lo, ri[1])
            # index = len - k with len >= k
            m = match(('bin', 'Sub', V('l'), V('k')), self.canon(idx))
            if m is not None and m['l'] == L and m['k'][0] == 'int' and 1 <= m['k'][1] <= lo:
                return 'guard: index = len - %d with len >= %d' % (m['k'][1], lo)
            # characters of a string: n bytes => at least ... (see utf8 strategies)
            u = self.utf8_index(s, blk, vec, ri, env)
            if u:
                return u
            return None
        if kind == 'panic':
            # unreachable arm of a switch on `x & mask` that lists every value
            for gg in guards(s, blk, transitive=False):
                cnd = norm(self.il.inline(gg['cond'])) if gg['cond'] is not None else None
                if cnd and cnd[0] == 'bin' and cnd[1] == 'BitAnd' and gg['vals'] == ['otherwise']:
                    ks = [x for x in (cnd[2], cnd[3]) if x[0] == 'int']
                    if ks and set(range(ks[0][1] + 1)) <= {v for v in gg['all'] if v != 'otherwise'}:
                        return 'dead: every value of x & %d has its own arm' % ks[0][1]
            # the same as an `if x & m == 0 {..} else if x & m == 1 {..} .. else { unreachable }` ladder: every value excluded
            excluded = {}
            for gg in guards(s, blk):
                cnd = norm(self.il.inline(gg['cond'])) if gg['cond'] is not None else None
                tv = truth(gg)
                if cnd and cnd[0] == 'bin' and cnd[1] in ('Eq', 'Ne') and tv is not None and ((cnd[1] == 'Eq') != tv):
                    for x, k in ((cnd[2], cnd[3]), (cnd[3], cnd[2])):
                        if k[0] == 'int' and x[0] == 'bin' and x[1] == 'BitAnd':
                            ms = [y for y in (x[2], x[3]) if y[0] == 'int']
                            if ms:
                                excluded.setdefault((x, ms[0][1]), set()).add(k[1])
            for (x, m_), ks in excluded.items():
                if set(range(m_ + 1)) <= ks:
                    return 'dead: every value of x & %d was excluded by the comparisons before' % m_
            return None
        return None

    def utf8_index(self, s, blk, vec, ri, env):
        """index into s.chars().collect::<Vec<char>>() justified by the byte length of s"""
        m = match(call('core::iter::traits::iterator::Iterator::collect', call('core::str::<impl str>::chars', V('s'))), vec)
        if m is None or not ri or ri[0] != ri[1]:
            return None
        S = ('lenof', self.container(m['s']))
        bytes_lo = 0
        for cnd, tv in env:
            if cnd[0] == 'bin' and cnd[1] == 'Lt' and not tv and self.canon(cnd[2]) == S and cnd[3][0] == 'int':
                bytes_lo = max(bytes_lo, cnd[3][1])
        i = ri[1]
        if i == 0 and bytes_lo >= 1:
            return 'utf8: a string of >= 1 byte has a first character'
        if i >= 1 and bytes_lo >= i + 1:
            # every earlier character is known to be ASCII (one byte) from a dominating switch
            for j in range(i):
                cj = ('index', vec, ('int', j, 'usize'))
                vals = self.in_set(cj, env)
                if vals is None or max(vals) >= 128:
                    return None
            return 'utf8: %d byte(s) minimum and characters 0..%d are ASCII, so character %d exists' % (bytes_lo, i - 1, i)
        return None


# contracts: (function, kind, operand) -> reason.  The operand text pins the site without line numbers.
CONTRACTS = {
    ('board::Board::make_move', 'unwrap', 'board::Board::piece_on(arg1, chess_move::ChessMove::get_source(arg2))'):
        'documented precondition of make_move: the move was generated for this board, so its source square is occupied',
    ('board::Board::make_move_new', 'unwrap', 'board::Board::piece_on(arg1, chess_move::ChessMove::get_source(arg2))'):
        'documented precondition of make_move_new: the move was generated for this board, so its source square is occupied',
}


def callers_guard(aud, key, callee_arg_pat, entries_reach):
    """every call site of `key` inside the reachable set is dominated by is_some() of the unwrapped value"""
    ok = True
    n = 0
    for k in entries_reach:
        s = aud.an.summary(k)
        if s is None:
            continue
        for c in s.calls:
            if c['callee'] != key:
                continue
            n += 1
            board = norm(c['argvals'][0])
            gl = [g for g in guards(s, c['blk']) if g['cond'] is not None]
            gs = [(norm(g['cond']), truth(g)) for g in gl]
            ep = call('board::Board::en_passant', V('b'))
            want = call('core::option::Option::<T>::is_some', ep)
            wantn = call('core::option::Option::<T>::is_none', ep)
            some = any(match(want, g) is not None and tv is True for g, tv in gs) or \
                any(match(wantn, g) is not None and tv is False for g, tv in gs) or \
                any(norm(g['cond'])[0] == 'discr' and match(ep, norm(g['cond'])[1]) is not None and g['vals'] == [1] for g in gl)
            if not some:
                ok = False
    return ok and n > 0, n


def self_lent(s, a):
    """is an operand of assert `a` a loop-carried local that some call of a crate function receives by `&mut`?"""
    roots = {x[2] for o in a['ops'] for x in walk(norm(o)) if isinstance(x, tuple) and len(x) == 3 and x[0] == 'loop' and isinstance(x[2], tuple)}
    if not roots:
        return False
    facts = s.body.facts
    for c in s.calls:
        if c['callee'] in facts.bodies and '::{closure' not in c['callee']:
            for a_, o_ in zip(c['args'], c['term'].get('args', [])):
                if a_[0] == 'ref' and not a_[2] and a_[1] in roots:
                    return True
                # a temporary `&mut count` local
                pl = o_.get('m') or o_.get('c')
                if pl is not None and not pl.get('p') and str(s.body.locals[pl['l']]['ty']).startswith('&mut'):
                    v_ = a_
                    if v_[0] == 'ref' and v_[1] in roots:
                        return True
    return False


def audit(ctx, R, entries, config='default'):
    aud = Auditor(ctx, R, config)
    f = aud.f
    missing = [e for e in entries if e not in f.bodies]
    for e in missing:
        ctx.inconclusive(R, 'entry point not found: ' + e)
    reach = aud.reach(entries)
    aud.reachset = reach
    nsites = 0
    unknown = set()
    for k in sorted(reach):
        s = aud.an.summary(k)
        if s is None:
            continue
        body = s.body
        for a in s.asserts:
            nsites += 1
            why = aud.discharge_assert(s, a)
            desc = '%s %s(%s)' % (k, a['kind'], ', '.join(sh(o, 70) for o in a['ops']))
            if why:
                ctx.ok(R, '%s -- %s' % (desc, why), where(body, a['line']))
            elif not (aud.f.fns.get(k) or {}).get('pub', True) and '::{closure#' not in k and \
                    any(isinstance(x, tuple) and x and (x[0] == 'param' or (x[0] == 'mem' and isinstance(x[1], tuple) and x[1][:1] == ('p',)))
                        for o in a['ops'] for x in walk(norm(o))) and \
                    private_callers_only(aud.f, k):
                # a private helper indexes with its own parameter or with the state behind it (`fn entry_mask(&self, i)`,
                # `fn next_promotion(&mut self)` reading self.index): the bound is the callers' business
                ctx.inconclusive(R, '%s: %s on a parameter of a private helper: the bound must come from its callers, which are not followed (%s)' % (
                    k, a['kind'], ', '.join(sh(o, 70) for o in a['ops'])))
            elif any(g_['cond'] is not None and any(isinstance(x, tuple) and x and x[0] == 'call' and isinstance(x[1], str) and (k + '::') in x[1] and '::{closure' not in x[1]
                                                      for x in walk(norm(g_['cond']))) for g_ in guards(s, a['blk'])):
                # the guard that makes this safe is encoded in a type declared inside the function (`state == State::Normal`)
                ctx.inconclusive(R, '%s: %s behind a condition on a function-local type, which is not decoded (%s)' % (
                    k, a['kind'], ', '.join(sh(o, 70) for o in a['ops'])))
            elif a['kind'].startswith('overflow') and self_lent(s, a):
                # the counter is also handed `&mut` to a crate helper inside the loop (`flush_empties(f, &mut count)` resets it):
                # its value per iteration depends on that helper, which the range analysis does not follow
                ctx.inconclusive(R, '%s: %s on a counter that a helper called in the loop may reset (%s)' % (
                    k, a['kind'], ', '.join(sh(o, 70) for o in a['ops'])))
            elif '::{closure#' in k and any(isinstance(x, tuple) and x and x[0] == 'param' for o in a['ops'] for x in walk(norm(o))):
                # the operand is an argument of a closure: its range depends on the adaptor that calls the closure
                # (`(a..b).map(|i| v[i])`), which this audit does not follow
                ctx.inconclusive(R, '%s: %s on a closure argument: the values the closure is called with are not tracked (%s)' % (
                    k, a['kind'], ', '.join(sh(o, 70) for o in a['ops'])))
            else:
                ctx.violation(R, '%s:%s:%s' % (k, a['kind'], '|'.join(sh(o, 90) for o in a['ops'])),
                              'possible panic (%s) not discharged: operands %s' % (a['kind'], [sh(o, 120) for o in a['ops']]),
                              where(body, a['line']))
        for c in s.calls:
            callee = c['callee']
            if not callee or callee in f.bodies:
                continue
            kind = classify_extern(callee)
            if kind is None:
                continue
            if kind == 'unknown':
                if c['decl'] and not c['term'].get('resolved') and aud.eff.targets(callee, c['decl'], False):
                    continue
                unknown.add(callee)
                continue
            if c.get('exp') and kind == 'panic' and False:
                continue
            nsites += 1
            why = aud.discharge_call(s, c, kind)
            opnd = sh(c['argvals'][0], 200) if c['argvals'] else ''
            desc = '%s %s(%s)' % (k, kind, opnd[:90])
            if not why:
                ck = (k, kind, opnd)
                if ck in CONTRACTS:
                    why = 'contract: ' + CONTRACTS[ck]
                elif k == 'movegen::piece_type::PawnType::legal_ep_move' and kind == 'unwrap' and \
                        opnd == 'board::Board::en_passant(*arg1)':
                    okc, n = callers_guard(aud, k, None, reach)
                    if okc:
                        why = 'callers: all %d reachable call sites are dominated by en_passant() being Some (is_some() / `if let Some`)' % n
            if why:
                ctx.ok(R, '%s -- %s' % (desc, why), where(body, c['line']))
            elif '::{closure#' in k and kind in ('unwrap', 'unwrap-result') and \
                    any(isinstance(x, tuple) and x and x[0] == 'param' for x in walk(norm(c['argvals'][0]))):
                # an unwrap inside a closure on something built from its captures / arguments: whether it can fail depends on
                # when the adaptor calls the closure (`opt.map(|p| (p, other(sq).unwrap()))` runs only for Some), which this
                # audit does not follow
                ctx.inconclusive(R, '%s: unwrap inside a closure: the condition under which the closure is called is not tracked (%s)' % (
                    k, opnd[:120]))
            else:
                ctx.violation(R, '%s:%s:%s' % (k, kind, opnd[:120]),
                              'possible panic: %s on %s is not guarded' % (callee.rsplit('::', 1)[-1], opnd), where(body, c['line']))
    for u in sorted(unknown):
        ctx.inconclusive(R, 'unclassified external callee (may it panic?): ' + u)
    ctx.instance(R, 'panic audit: %d functions reachable from %d entry point(s), %d panic-capable sites' % (len(reach), len(entries), nsites), '')
    return nsites
