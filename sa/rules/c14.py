"""C14 — move iterator contract: masks partition, len exact, removed moves stay removed.

R1 LEN-READS-STATE (sibling agreement of next/len): len() is the sum, over the entries from `index`
   while `bitboard & mask` is non-empty, of popcount(bitboard & mask) (x4 for promotion entries), minus
   the promotions already yielded (`promotion_index`); every state field that next() writes and that
   determines what is still to come (entry bitboards, index, promotion_index) is read by len();
   size_hint is (n, Some(n)) of len().
R2 PARTITION-INVARIANT: next/len stop at the first entry that is empty under the mask, so every
   function that changes entry bitboards or the mask must re-run the partition before returning
   (next itself only clears bits of the entry at `index`); set_iterator_mask itself runs the partition
   scan on every path, except under a condition that makes the list trivially partitioned (empty mask,
   at most one entry).
R3 REMOVE-SCANS-ALL: remove_move visits every entry (no exit from inside the loop) and clears the
   destination in each entry of the source square; remove_mask intersects every entry with the
   complement of the mask.
R4 NEXT-SHAPE: None iff index >= len or the entry at index is empty under the mask; the destination
   is the lowest bit of `bitboard & mask`; exactly that bit is cleared (at once, or after the last
   promotion piece); promotions cycle through the constant table of 4 distinct pieces; set_iterator_mask
   stores the mask and resets index."""
from .common import *
from ..bb import bb
from ..expr import mk_field, peel_upd
from .. import tables as T

LEVEL = 'other'
EXHAUSTIVE = True
EXPLANATION = ('Sibling agreement and path rules on the MIR of src/movegen/movegen.rs: loop shape and read set of len() vs the '
               'write set of next(), typestate "partition re-established after the last change" for every mutator, must-pass-through of the partition scan in set_iterator_mask, loop-exit '
               'structure of the removal functions, decision tree and state update of next().')
NOT_DECIDED = 'that the multiset of yielded moves equals the FIDE legal moves as a value property (the structural rules of the list builder are included as R5); the partition algorithm itself is checked for shape only'

MG = 'movegen::movegen::MoveGen'
NEXT = '<movegen::movegen::MoveGen as core::iter::traits::iterator::Iterator>::next'
LEN = '<movegen::movegen::MoveGen as core::iter::traits::exact_size::ExactSizeIterator>::len'
HINT = '<movegen::movegen::MoveGen as core::iter::traits::iterator::Iterator>::size_hint'
SETMASK = 'movegen::movegen::MoveGen::set_iterator_mask'
SELF = ('mem', ('p', 1))
MOVES = ('field', SELF, 'moves')
MASK = ('field', SELF, 'iterator_mask')
ALEN = call('arrayvec::arrayvec::ArrayVec::<T, CAP>::len', MOVES)


def entry(i):
    return ('index', MOVES, i)


def masked(i):
    return ('bb', '&', tuple(sorted([('field', entry(i), 'bitboard'), MASK], key=repr)))


def r1(ctx):
    R = 'C14.R1'
    s = summary(ctx, LEN, R)
    if s is None:
        return
    w = where(s.body)
    loops = for_loops(s)
    if not loops:
        ctx.inconclusive(R, 'len() is not written as a loop over the entries (iterator-adaptor form is not analysed): ' + sh(norm(s.ret), 160))
        return
    if len(loops) != 1:
        ctx.violation(R, LEN + ':shape', 'len() is not a single loop over the entries (%d loops)' % len(loops), w)
        return
    l = loops[0]
    src = norm(l['source'])
    start_ok = match(('agg', 'core::ops::range::Range', 'Range', (('start', ('field', SELF, 'index')), ('end', ALEN))), src) is not None
    if start_ok:
        ctx.ok(R, 'len() iterates the entries index..moves.len() (starts at the current entry)', w)
    else:
        ctx.violation(R, LEN + ':start', 'len() does not start at the current entry `index` up to moves.len(): it iterates %s' % sh(src, 200), w)
    I = bb(l['elem'], ctx.an())
    # break at the first entry that is empty under the mask
    brk = False
    for b in sorted(l['blocks']):
        t = s.body.blocks[b]['term']
        if t['k'] == 'switch':
            cnd = s.switches.get(b)
            if cnd is None:
                continue
            c = bb(cnd, ctx.an())
            if c == ('bbeq', ('bb0',), masked(I)) or c == ('bbeq', masked(I), ('bb0',)):
                tgt_true = t['otherwise']
                if tgt_true not in l['blocks'] or not s.cfg.can_reach(tgt_true, l['header'], removed_nodes=[]):
                    brk = True
                else:
                    # true edge must leave the loop
                    brk = l['header'] not in s.cfg.reachable_from(tgt_true, removed_nodes=[b])
    if brk:
        ctx.ok(R, 'len() stops at the first entry that is empty under the mask (same stop rule as next())', w)
    else:
        ctx.violation(R, LEN + ':stop', 'len() does not stop at the first masked-empty entry', w)
    # accumulation
    r = s.ret
    acc = None
    fin = bb(r, ctx.an())
    pi = ('field', SELF, 'promotion_index')
    sub_ok = False
    for pat in (call('core::num::<impl usize>::saturating_sub', V('acc'), pi), ('bin', 'Sub', V('acc'), pi)):
        m = match(pat, fin)
        if m is not None and m['acc'][0] == 'loop':
            sub_ok = True
            acc = m['acc']
    if sub_ok:
        ctx.ok(R, 'len() subtracts the promotions already yielded for the current destination (promotion_index)', w)
    else:
        ctx.violation(R, LEN + ':promotion_index', 'len() does not subtract promotion_index from the count: returns %s' % sh(fin, 200), w)
        if fin[0] == 'loop':
            acc = fin
    if acc is not None:
        latch = loop_latch_value(s, l, acc[2])
        lv = bb(latch, ctx.an()) if latch is not None else None
        pop = ('cast', ('popcnt', masked(I)), 'usize')
        nprom = T.Tables(ctx.facts()).scalar('piece::NUM_PROMOTION_PIECES')
        want = ('ite', ('field', entry(I), 'promotion'),
                ((0, ('bin', 'Add', acc, pop)), ('otherwise', ('bin', 'Add', acc, ('bin', 'Mul', pop, ('int', nprom, 'usize'))))))
        ok = False
        four = ('int', nprom, 'usize')
        prom = ('field', entry(I), 'promotion')
        wants = [want]
        for mul in (('bin', 'Mul', pop, four), ('bin', 'Mul', four, pop)):
            wants.append(('ite', prom, ((0, ('bin', 'Add', acc, pop)), ('otherwise', ('bin', 'Add', acc, mul)))))
            for add in (lambda a, b: ('bin', 'Add', a, b), lambda a, b: ('bin', 'Add', b, a)):
                wants.append(add(acc, ('ite', prom, ((0, pop), ('otherwise', mul)))))
                wants.append(add(acc, ('bin', 'Mul', pop, ('ite', prom, ((0, ('int', 1, 'usize')), ('otherwise', four))))))
        if lv is not None:
            # the latch value may be wrapped by the break test; look for the promotion split anywhere
            for x in walk(lv):
                if any(match(wn, x) is not None for wn in wants):
                    ok = True
        if ok and nprom == 4:
            ctx.ok(R, 'len() adds popcount(bitboard & mask), times %d for promotion entries' % nprom, w)
        else:
            ctx.violation(R, LEN + ':sum', 'len() does not add popcount(bitboard & mask) (x NUM_PROMOTION_PIECES for promotions) per entry', w)
    # read set vs what next() writes
    reads = set()
    for c in s.calls:
        for a in c['argvals']:
            for x in walk(norm(a)):
                if x[0] == 'field' and x[1] == SELF:
                    reads.add(x[2])
    for x in walk(norm(s.ret)):
        if x[0] == 'field' and x[1] == SELF:
            reads.add(x[2])
    for x in walk(src):
        if x[0] == 'field' and x[1] == SELF:
            reads.add(x[2])
    sn = ctx.an().summary(NEXT)
    if sn is None:
        ctx.inconclusive(R, 'next() not found')
    else:
        _, wr = peel_upd(norm(sn.final.get(('p', 1), SELF)))
        need = set(wr) & {'moves', 'index', 'promotion_index', 'iterator_mask'}
        miss = need - reads
        if miss:
            ctx.violation(R, LEN + ':reads:' + ','.join(sorted(miss)), 'next() advances %s but len() never reads %s' % (sorted(need), sorted(miss)), w)
        else:
            ctx.ok(R, 'len() reads every state field next() advances: %s' % sorted(need), w)
    sh_ = summary(ctx, HINT, R)
    if sh_ is not None:
        r = norm(sh_.ret)
        L = call(LEN, ('param', 1))
        if match(('tuple', (L, ('agg', 'core::option::Option', 'Some', (('0', L),)))), r) is not None:
            ctx.ok(R, 'size_hint() = (len(), Some(len()))', where(sh_.body))
        else:
            ctx.violation(R, HINT, 'size_hint() is %s, expected (len, Some(len))' % sh(r, 200), where(sh_.body))


def r2(ctx):
    R = 'C14.R2'
    f = ctx.facts()
    eff = ctx.eff()
    writers = sorted(k for k in eff.direct if ((MG, 'moves') in eff.direct[k] or (MG, 'iterator_mask') in eff.direct[k]) and '::{' not in k)
    n = 0
    for k in writers:
        if k in (NEXT, SETMASK):
            continue
        fnk = f.fns.get(k) or {}
        callers = sorted(c_ for c_, b_ in f.bodies.items() if '::{' not in c_ and any(t_.get('callee') == k for _, t_ in b_.calls()))
        if not fnk.get('pub') and 'impl_trait' not in fnk and callers and all(c_ in (NEXT, SETMASK) for c_ in callers):
            continue          # a private part of next() / of the partition itself (e.g. `fn next_promotion(&mut self)`)
        n += 1
        body = f.body(k)
        from ..cfg import CFG
        cfg = CFG(body)
        out = {}
        changed = True

        def transfer(bi, state):
            b = body.blocks[bi]
            for st in b['stmts']:
                if st['k'] != 'assign':
                    continue
                for pl in (st['pl'], st['rv'].get('pl') if st['rv']['rv'] in ('ref', 'rawptr') and st['rv'].get('bk') == 'mut' else None):
                    if pl is None:
                        continue
                    for e in pl['p']:
                        if isinstance(e, dict) and e.get('adt') == MG and e.get('n') in ('moves', 'iterator_mask'):
                            state = 'dirty'
            t = b['term']
            if t['k'] == 'call' and t.get('callee') == SETMASK:
                state = 'clean'
            return state
        while changed:
            changed = False
            for bi in cfg.order:
                preds = [p for p in cfg.pred[bi] if p in out]
                s_in = 'dirty' if any(out[p] == 'dirty' for p in preds) else 'clean'
                s_out = transfer(bi, s_in)
                if out.get(bi) != s_out:
                    out[bi] = s_out
                    changed = True
        dirty = [r_ for r_ in body.return_blocks() if out.get(r_) == 'dirty']
        if dirty:
            ctx.violation(R, k, '%s changes entry bitboards (or the mask) and returns without re-running the partition: next()/len() stop at '
                          'the first empty entry and would skip the remaining moves' % k, where(body, body.blocks[dirty[0]]['term']['line']))
        else:
            ctx.ok(R, '%s: the partition (set_iterator_mask) is re-run after the last change on every path' % k, where(body))
    ctx.floor(R, 'entry-changing functions besides next() and the partition itself', n, 2)
    # the stop-at-first-empty rule is what makes the invariant necessary: confirm next() uses it
    # set_iterator_mask shape
    s = summary(ctx, SETMASK, R)
    if s is not None:
        fin = norm(s.final.get(('p', 1), SELF))
        base, fs = peel_upd(fin)
        if fs.get('iterator_mask') == ('param', 2) and fs.get('index') == ('int', 0, 'usize'):
            ctx.ok('C14.R4', 'set_iterator_mask stores the mask and resets index to 0', where(s.body))
        else:
            ctx.violation('C14.R4', SETMASK, 'set_iterator_mask leaves mask=%s index=%s' % (sh(fs.get('iterator_mask', 'unchanged'), 60),
                                                                                       sh(fs.get('index', 'unchanged'), 60)), where(s.body))
        # partition: second loop swaps a used entry j > i into slot i
        swaps = 0
        _loops = for_loops(s)
        for l in _loops:
            J = norm(l['elem'])
            stores = [st for st in s.stores if st['blk'] in l['blocks'] and st['target'][1] == ('p', 1) and
                      st['target'][2][:1] == (('f', 'moves'),) and len(st['target'][2]) == 2]
            gd = False
            for st in stores:
                for g in guards(s, st['blk'], transitive=False):
                    if g['cond'] is not None:
                        c = bb(g['cond'], ctx.an())
                        if c[0] == 'call' and c[1].startswith('movegen::movegen::'):
                            c = bb(inline_private(ctx, g['cond']), ctx.an())      # e.g. a private `fn is_used(&self, i) -> bool`
                        if c[0] in ('bbne', 'bbeq') and ('bb0',) in c[1:]:
                            gd = True
            # `self.moves.swap(i, j)` is the same exchange
            swapcall = [c for c in s.calls if c['blk'] in l['blocks'] and c['callee'] and c['callee'].endswith('::swap') and c['args'] and
                        any(isinstance(x, tuple) and x == ('f', 'moves') for a_ in c['args'][:1] for x in (a_[2] if a_[0] == 'ref' else ()))]
            if not swapcall:
                swapcall = [c for c in s.calls if c['blk'] in l['blocks'] and c['callee'] and c['callee'].endswith('::swap') and
                            'moves' in sh(c['argvals'][0] if c['argvals'] else '', 200)]
            if not stores and swapcall:
                for c in swapcall:
                    for g in guards(s, c['blk'], transitive=False):
                        if g['cond'] is not None:
                            cnd = bb(g['cond'], ctx.an())
                            if cnd[0] == 'call' and cnd[1].startswith('movegen::movegen::'):
                                cnd = bb(inline_private(ctx, g['cond']), ctx.an())
                            if cnd[0] in ('bbne', 'bbeq') and ('bb0',) in cnd[1:]:
                                gd = True
                if gd:
                    swaps += 1
                    l['_swap'] = True
            if len(stores) == 2 and gd:
                swaps += 1
                l['_swap'] = True
        swap_loops = [l for l in _loops if l.get('_swap')]
        if len(swap_loops) == 1:
            partition_always(ctx, R, s, swap_loops[0]['header'])
        if swaps == 1:
            ctx.ok(R, 'partition: inside the second scan a used entry is exchanged (two stores) into the first unused slot', where(s.body))
        elif not _loops:
            ctx.inconclusive(R, 'set_iterator_mask: the partition is not written with `for` loops (not analysed)')
        else:
            ctx.violation(R, SETMASK + ':swap', 'partition loop does not exchange used entries forward (found %d swap loops)' % swaps, where(s.body))


def partition_always(ctx, R, s, h):
    """every path through set_iterator_mask runs the partition scan (loop header h), except under a condition that makes
    the list trivially partitioned: the new mask is EMPTY (no entry is in use) or there is at most one entry"""
    body = s.body
    an = ctx.an()

    def reach_avoid(start):
        seen = {start}
        st = [start]
        while st:
            b = st.pop()
            for x in body.successors(b):
                if x != h and x not in seen:
                    seen.add(x)
                    st.append(x)
        return seen
    rets = set(body.return_blocks())
    A = reach_avoid(0)
    if not (A & rets):
        ctx.ok(R, 'set_iterator_mask: every path to the return runs the partition scan', where(body))
        return
    B = {b for b in A if reach_avoid(b) & rets}
    n_dec = 0
    for b in sorted(B):
        t = body.blocks[b]['term']
        if t['k'] != 'switch':
            continue
        edges = [(v, tb) for v, tb in t['targets']] + [('otherwise', t['otherwise'])]
        if all(tb in B for _, tb in edges):
            continue
        n_dec += 1
        c = bb(s.switches[b], an) if s.switches.get(b) is not None else None
        vals = [v for v, _ in edges]
        by = [v for v, tb in edges if tb in B]
        tv = None
        if set(vals) == {0, 'otherwise'} and len(by) == 1:
            tv = by[0] == 'otherwise'
        w = where(body, t['line'])
        ok = None
        if c is not None and tv is not None:
            if c[0] in ('bbeq', 'bbne') and ('param', 2) in c[1:] or (c is not None and c[0] in ('bbeq', 'bbne') and MASK in c[1:]):
                other = [x for x in c[1:] if x not in (('param', 2), MASK)]
                ok = bool(other) and other[0] == ('bb0',) and ((c[0] == 'bbeq') == tv)
            elif c[0] == 'call' and c[1].endswith('::is_empty') and norm(c[2][0]) in (MOVES, ('ref', ('p', 1), (('f', 'moves'),))):
                ok = tv is True
            elif c[0] == 'bin' and c[3][0] == 'int' and norm(c[2]) == ALEN:
                k = c[3][1]
                hi = {('Lt', True): k - 1, ('Le', True): k, ('Eq', True): k, ('Ge', False): k - 1, ('Gt', False): k, ('Ne', False): k}.get((c[1], tv))
                ok = hi is not None and hi <= 1
        if ok is True:
            ctx.ok(R, 'set_iterator_mask: the partition is skipped only when the list is trivially partitioned (%s is %s)' % (sh(c, 60), tv), w)
        elif ok is False:
            ctx.violation(R, SETMASK + ':partition-skipped', 'set_iterator_mask returns without running the partition when `%s` is %s: entries that '
                          'were exhausted under an earlier mask stay in front, and next()/len() stop at the first of them' % (sh(c, 80), tv), w)
        else:
            ctx.inconclusive(R, 'set_iterator_mask skips the partition under a condition that is not analysed: %s' % sh(c, 120))
    if n_dec == 0:
        ctx.inconclusive(R, 'set_iterator_mask: a path avoids the partition scan but its deciding branch was not found')


def r3(ctx):
    R = 'C14.R3'
    for key, desc in (('movegen::movegen::MoveGen::remove_move', 'move'), ('movegen::movegen::MoveGen::remove_mask', 'mask')):
        s = summary(ctx, key, R)
        if s is None:
            continue
        w = where(s.body)
        loops = for_loops(s)
        if len(loops) != 1:
            ctx.violation(R, key + ':shape', '%s is not a single loop over the entries' % key, w)
            continue
        l = loops[0]
        src = norm(l['source'])
        full = match(('agg', 'core::ops::range::Range', 'Range', (('start', ('int', 0, 'usize')), ('end', ALEN))), src) is not None
        # or: `for entry in self.moves.iter_mut()` -- every entry by reference
        by_ref = False
        if not full and src[0] == 'call' and src[1].endswith('::iter_mut') and len(src[2]) == 1:
            base = src[2][0]
            while isinstance(base, tuple) and base and base[0] == 'call' and (base[1].endswith('::deref_mut') or base[1].endswith('::as_mut_slice')):
                base = base[2][0]
            if base == MOVES or base == ('ref', ('p', 1), (('f', 'moves'),)) or sh(base, 60) in ('&*arg1.moves', '*arg1.moves'):
                full = by_ref = True
        exits = loop_exits(s, l)
        ctrl = ctrl_blocks(s, l)
        only_header = all(a in ctrl for a, _ in exits)
        if full and only_header:
            ctx.ok(R, '%s visits every entry 0..moves.len(): the only loop exit is iterator exhaustion' % key, w)
        else:
            why = 'leaves the loop early (exit from block(s) %s)' % sorted({a for a, _ in exits if a not in ctrl}) if full else \
                'iterates %s' % sh(src, 120)
            ctx.violation(R, key + ':early-exit', '%s %s: a source square can own two entries (ordinary moves and the en-passant capture), '
                          'so stopping at the first match leaves the move in the list' % (key, why), w)
        I = bb(l['elem'], ctx.an())
        EL = norm(l['elem'])
        ups = []
        for c in s.calls:
            if c['blk'] in l['blocks'] and c['callee'] and c['callee'].endswith('bitand_assign') and c['args']:
                a = c['args'][0]
                if a[0] == 'ref' and a[1] == ('p', 1) and a[2][:1] == (('f', 'moves'),) and a[2][-1] == ('f', 'bitboard'):
                    ups.append(c)
                elif by_ref and a[0] == 'ref' and a[1][0] == 'h' and norm(a[1][1]) == EL and a[2] == (('f', 'bitboard'),):
                    ups.append(c)
        if len(ups) != 1:
            ctx.violation(R, key + ':update', '%s does not clear destinations with `entry.bitboard &= !..` exactly once per entry' % key, w)
            continue
        c = ups[0]
        idx_ok = True if by_ref else bb(c['args'][0][2][1][1], ctx.an()) == I
        v = bb(c['argvals'][1], ctx.an())
        gs = [g for g in guards(s, c['blk'], transitive=False) if g['cond'] is not None and g['blk'] in l['blocks'] and g['blk'] not in ctrl]
        if desc == 'mask':
            okv = v == ('bbnot', ('param', 2)) and not gs
            what = 'every entry: bitboard &= !mask (unconditional)'
        else:
            dest = call('chess_move::ChessMove::get_dest', ('param', 2))
            srcq = call('chess_move::ChessMove::get_source', ('param', 2))
            okv = match(('bbnot', ('single', dest)), v) is not None
            gd = False
            for g in gs:
                cn = bb(g['cond'], ctx.an())
                if cn[0] == 'call' and cn[1].endswith('PartialEq>::eq') and truth(g) is True:
                    def is_sq(a):
                        if by_ref:
                            return a[0] == 'field' and a[2] == 'square' and a[1] in (('mem', ('h', EL)), EL, I, ('mem', ('h', I)))
                        return a[0] == 'field' and a[2] == 'square' and a[1][0] == 'index' and a[1][2] == I and \
                            (a[1][1] == MOVES or (a[1][1][0] == 'loop' and a[1][1][2] == (('p', 1), 'moves')))
                    if any(match(srcq, a) is not None for a in cn[2]) and any(is_sq(a) for a in cn[2]):
                        gd = True
            okv = okv and gd and len(gs) == 1
            what = 'each entry whose square is the source: bitboard &= !{dest}'
        if okv and idx_ok:
            ctx.ok(R, '%s: %s' % (key, what), where(s.body, c['line']))
        else:
            ctx.violation(R, key + ':clear', '%s does not perform "%s" (value %s)' % (key, what, sh(v, 120)), where(s.body, c['line']))


def r4(ctx):
    R = 'C14.R4'
    s = summary(ctx, NEXT, R)
    if s is None:
        return
    w = where(s.body)
    an = ctx.an()
    facts = ctx.facts()
    helpers = sorted({c['callee'] for c in s.calls if c['callee'] in facts.bodies and not (facts.fns.get(c['callee']) or {}).get('pub', True)
                      and any((facts.fns.get(c['callee']) or {}).get('inputs', [''])[:1] == [t_] for t_ in ('&mut movegen::movegen::MoveGen',))})
    local_items = sorted({c['callee'] for c in s.calls if c['callee'] and (NEXT + '::') in c['callee'] and '::{closure' not in c['callee']})
    if local_items:
        # the decision is staged through a type declared inside next() (`enum State { Done, Promotion, Normal }` compared with ==)
        ctx.inconclusive(R, 'next() stages its decision through a function-local type (%s): the decision tree is not decoded' % local_items[0].split(' as ')[0].lstrip('<'))
        return
    if helpers:
        # part of next() lives in a private `&mut self` helper (`fn next_promotion(&mut self) -> ChessMove`): the decision tree
        # and the state update are then spread over two bodies, which this rule does not join
        ctx.inconclusive(R, 'next() delegates part of its state update to the private helper %s: the split form is not analysed' % helpers[0])
        return
    ret = bb(s.ret, an)
    IDX = ('field', SELF, 'index')
    E = entry(IDX)
    MB = masked(IDX)
    dest = ('lowest', MB)
    none = ('agg', 'core::option::Option', 'None', ())
    some = lambda p: ('agg', 'core::option::Option', 'Some', (('0', call('chess_move::ChessMove::new', ('field', E, 'square'), dest, p)),))
    PI = ('field', SELF, 'promotion_index')
    promo_piece = ('agg', 'core::option::Option', 'Some', (('0', ('index', ('constdef', 'piece::PROMOTION_PIECES', ANY), PI)),))
    want = ('ite', ('bin', 'Ge', IDX, ALEN),
            ((0, ('ite', ('bbeq', V('x'), V('y')),
                  ((0, ('ite', ('field', E, 'promotion'), ((0, some(none)), ('otherwise', some(promo_piece))))),
                   ('otherwise', none)))),
             ('otherwise', none)))
    m = match(want, ret)
    if m is not None and {m['x'], m['y']} == {('bb0',), MB}:
        ctx.ok(R, 'next(): None iff index >= len or the entry is empty under the mask; yields (square, lowest(bitboard & mask), '
               'None | Some(PROMOTION_PIECES[promotion_index]))', w)
    else:
        ctx.violation(R, NEXT + ':value', 'next() does not have the required decision tree / move value: ' + sh(ret, 500), w)
    # the promotion table: 4 distinct promotion pieces
    t = T.Tables(ctx.facts())
    pp = t.u8s('piece::PROMOTION_PIECES')
    nprom = t.scalar('piece::NUM_PROMOTION_PIECES')
    names = [ctx.facts().enum_variant('piece::Piece', v) for v in (pp or [])]
    if pp is not None and len(pp) == 4 and nprom == 4 and sorted(names) == ['Bishop', 'Knight', 'Queen', 'Rook']:
        ctx.ok(R, 'PROMOTION_PIECES = %s: four distinct promotion pieces, NUM_PROMOTION_PIECES = 4' % names, t.where('piece::PROMOTION_PIECES'))
    else:
        ctx.violation(R, 'piece::PROMOTION_PIECES', 'promotion table is %s with NUM_PROMOTION_PIECES = %s' % (names, nprom), t.where('piece::PROMOTION_PIECES'))
    # state update: the bitboard of the current entry after the call, per path
    from ..expr import mk_index
    fin = s.final.get(('p', 1), SELF)
    BBF = ('field', E, 'bitboard')
    mv = mk_field(fin, 'moves', an)
    newbb = bb(mk_field(mk_index(mv, IDX, an), 'bitboard', an), an)
    cleared = ('bb', '^', tuple(sorted([BBF, ('single', dest)], key=repr)))
    bad = []
    seen = {'plain': 0, 'promo-mid': 0, 'promo-last': 0}
    for conds, leaf in paths_deep(newbb):
        cm = {}
        for c, v, allv in conds:
            cm[repr(c)] = (c, v)
        is_none = any((c == ('bin', 'Ge', IDX, ALEN) and v != 0) or (c[0] == 'bbeq' and set(c[1:]) == {('bb0',), MB} and v != 0) for c, v in cm.values())
        promo = [v for c, v in cm.values() if c == ('field', E, 'promotion')]
        lastp = [v for c, v in cm.values() if c[0] == 'bin' and c[1] == 'Ge' and c[2] == ('bin', 'Add', PI, ('int', 1, 'usize'))]
        if is_none:
            if leaf != BBF:
                bad.append('state changes although None is returned')
            continue
        if not promo:
            continue
        if promo[0] == 0:
            seen['plain'] += 1
            if leaf != cleared:
                bad.append('non-promotion path: entry bitboard becomes %s' % sh(leaf, 100))
        elif lastp and lastp[0] != 0:
            seen['promo-last'] += 1
            if leaf != cleared:
                bad.append('after the last promotion piece the destination bit is not cleared')
        else:
            seen['promo-mid'] += 1
            if leaf != BBF:
                bad.append('destination bit cleared before all promotion pieces were yielded')
    if bad:
        ctx.violation(R, NEXT + ':clear', 'next() state update wrong: ' + '; '.join(sorted(set(bad))[:3]), w)
    elif min(seen.values()) == 0:
        ctx.inconclusive(R, 'next(): could not classify all three update paths %s' % seen)
    else:
        ctx.ok(R, 'next(): clears exactly the yielded destination bit -- at once for ordinary entries, after the 4th piece for promotions', w)
    # promotion_index / index updates
    pif = bb(mk_field(fin, 'promotion_index', an), an)
    inc = ('bin', 'Add', PI, ('int', 1, 'usize'))
    okpi = False
    for x in walk(pif):
        if x[0] == 'ite' and x[1] == ('bin', 'Ge', inc, ('int', 4, 'usize')):
            cs = dict(x[2])
            if cs.get(0) == inc and cs.get('otherwise') == ('int', 0, 'usize'):
                okpi = True
    if okpi:
        ctx.ok(R, 'next(): promotion_index cycles 0,1,2,3 -> 0', w)
    else:
        ctx.violation(R, NEXT + ':promotion_index', 'promotion_index does not cycle through the 4 pieces: ' + sh(pif, 300), w)
    idxf = bb(mk_field(fin, 'index', an), an)
    adv = [x for x in walk(idxf) if x == ('bin', 'Add', IDX, ('int', 1, 'usize'))]
    # index advances only under "entry now empty under the mask"
    ok_adv = bool(adv)
    for conds, leaf in paths_deep(idxf):
        if leaf == ('bin', 'Add', IDX, ('int', 1, 'usize')):
            emptied = False
            after_mask = ('bb', '&', tuple(sorted([cleared, MASK], key=repr)))
            for c, v, allv in conds:
                if c[0] == 'bbeq' and set(c[1:]) == {('bb0',), after_mask} and v != 0:
                    emptied = True
            if not emptied:
                ok_adv = False
    if ok_adv:
        ctx.ok(R, 'next(): index advances exactly when the current entry became empty under the mask', w)
    else:
        ctx.violation(R, NEXT + ':advance', 'index is not advanced exactly when the entry is exhausted: ' + sh(idxf, 300), w)


def run(ctx):
    bb(('unit',), ctx.an())
    r1(ctx)
    r2(ctx)
    r3(ctx)
    r4(ctx)
    # R6 BUILD-PARITY: the iterator's mutators do the same with and without debug assertions
    debug_parity(ctx, 'C14.R6', [NEXT, SETMASK, MG + '::remove_mask', MG + '::remove_move'])
    # R5 ENTRIES (= C01.R2-R4): what the iterator yields is what the list builder pushed: every piece kind dispatched with
    # the pin and check masks, promotion entries flagged exactly on the seventh rank
    from . import c01
    sub = Sub(ctx, {'C01.R2': 'C14.R5', 'C01.R3': 'C14.R5', 'C01.R4': 'C14.R5'})
    c01.r2(sub)
    c01.r3(sub)
    c01.r4(sub)
