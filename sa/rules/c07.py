"""C07 — validation never panics, accepts only playable positions, and those are safe.

R1 PANIC-AUDIT: every panic-capable site reachable from the text/builder conversions and, for
   accepted boards, from generation, iteration, len, status, rendering and move application is
   discharged (shared panic audit).
R2 SANE-CONJUNCTS: every `return false` of is_sane is attributed to exactly one conjunct of the
   required list, and every conjunct has one: pairwise piece overlap, colour overlap, combined =
   union, one king per colour (x2), men bound per colour (x2), en-passant square holds an enemy pawn,
   opponent not in check, unmoved rooks for the held rights, king on its home square when rights are
   held, kings not adjacent.
R3 GATE (= C05.R2): Ok(board) only on the true edge of is_sane() for the value that was checked.
R4 UNCHECKED-INDEX: every get_unchecked(_mut) site has index < length by ranges (enum casts, the
   Square < 64 invariant established by its three constructor forms, masks, table-derived bounds);
   unreachable_unchecked sits behind an exhaustive switch on a masked value.
R5 MOVELIST-CAPACITY: capacity N of the move list >= (largest number of men per side that is_sane
   admits) + 2: one entry per man (two disjoint loops per piece kind, one king entry) plus at most
   two en-passant entries."""
from .common import *
from ..bb import bb, cnot, mk
from ..expr import mk_field
from . import panics, c05
from .. import tables as T

LEVEL = 'other'
EXHAUSTIVE = True
EXPLANATION = ('Panic and bounds audit over the call graph from the validation and play entry points (interval reasoning on origin '
               'expressions, dominating guards, struct invariants, table-derived ranges), attribution of every rejecting return of '
               'is_sane to a required conjunct, and the capacity obligation of the unchecked move list derived from the loop structure of '
               'the generators and the men bound that is_sane enforces.')
NOT_DECIDED = '"accepts every valid chess position" beyond the exactness of the conjunct attribution; the meaning of the placement scanner'

SANE = 'board::Board::is_sane'
SELF = ('mem', ('p', 1))
P = lambda n: ENUM('piece::Piece', n)
W_, B_ = ENUM('color::Color', 'White'), ENUM('color::Color', 'Black')
PF, CF = ('field', SELF, 'pieces'), ('field', SELF, 'color_combined')
ENTRIES_TEXT = ['<board_builder::BoardBuilder as core::str::traits::FromStr>::from_str',
                '<board::Board as core::str::traits::FromStr>::from_str',
                '<board::Board as core::convert::TryFrom<&board_builder::BoardBuilder>>::try_from',
                '<board::Board as core::convert::TryFrom<&mut board_builder::BoardBuilder>>::try_from',
                '<board::Board as core::convert::TryFrom<board_builder::BoardBuilder>>::try_from']
ENTRIES_PLAY = ['movegen::movegen::MoveGen::new_legal',
                '<movegen::movegen::MoveGen as core::iter::traits::iterator::Iterator>::next',
                '<movegen::movegen::MoveGen as core::iter::traits::exact_size::ExactSizeIterator>::len',
                'board::Board::status', '<board::Board as core::fmt::Display>::fmt', 'board::Board::make_move', 'board::Board::make_move_new']


def classify_reject(ctx, s, lits, colvars=()):
    """name of the conjunct a rejecting path belongs to, from its last literals"""
    an = ctx.an()
    def cc(c):
        return ('cc', CF, c)
    def pc(n):
        return ('pieces', PF, P(n))
    last = lits[-1] if lits else None
    if last is None:
        return None
    c, tv = last
    if c[0] in ('bbeq', 'bbne') and tv is False:      # `!(a == b)` is `a != b`
        c, tv = (('bbne' if c[0] == 'bbeq' else 'bbeq'),) + tuple(c[1:]), True
    nonempty = None
    if c[0] in ('bbne', 'bbeq') and ('bb0',) in c[1:]:
        other = [y for y in c[1:] if y != ('bb0',)][0]
        nonempty = tv if c[0] == 'bbne' else not tv
        if nonempty is True:
            if other[0] == 'bb' and other[1] == '&' and len(other[2]) == 2 and all(y[0] == 'pieces' and y[1] == PF for y in other[2]):
                # must be under x != y
                if any(c2[0] == 'call' and c2[1] == 'core::cmp::PartialEq::ne' and t2 is True for c2, t2 in lits[:-1]):
                    return 'piece-overlap'
            if other == mk('&', [cc(W_), cc(B_)]):
                return 'colour-overlap'
            if other[0] == 'bb' and other[1] == '&':
                km = [y for y in other[2] if y[0] == 'call' and y[1] == 'magic::get_king_moves']
                if km and pc('King') in other[2]:
                    k = km[0][2][0]
                    if k in (('lowest', mk('&', [pc('King'), cc(W_)])), ('lowest', mk('&', [pc('King'), cc(B_)]))):
                        return 'kings-adjacent'
            if other[0] == 'field' and other[2] == 'checkers':
                o = other[1]
                if o[0] == 'after' and o[2] == 'board::Board::update_pin_info':
                    side = bb(mk_field(o[3], 'side_to_move', an), an)
                    if side == cnot(('field', SELF, 'side_to_move')):
                        return 'opponent-in-check'
        if nonempty is False:
            want = mk('&', [cc(cnot(('field', SELF, 'side_to_move'))), pc('Pawn'), ('single', ('field', ('variant', ('field', SELF, 'en_passant'), 'Some'), '0'))])
            if other == want:
                return 'ep-pawn'
    if c[0] == 'bbne' and tv is True:
        a, b_ = c[1], c[2]
        for x, y in ((a, b_), (b_, a)):
            if y == ('field', SELF, 'combined') and x[0] == 'call' and x[1].endswith('::fold'):
                return 'combined-union'
            if x[0] == 'call' and x[1] == 'castle_rights::CastleRights::unmoved_rooks' and y[0] == 'bb' and y[1] == '&' and x in y[2] and \
                    any(z[0] == 'pieces' and z[2] == P('Rook') for z in y[2]) and any(z[0] == 'cc' for z in y[2]):
                col = x[2][1]
                if ('cc', CF, col) in y[2] and match(call('board::Board::castle_rights', ('param', 1), col), x[2][0]) is not None:
                    return 'unmoved-rooks'
            if x[0] == 'bb' and x[1] == '&' and any(z[0] == 'call' and z[1] == 'magic::get_file' and z[2] == (ENUM('file::File', 'E'),) for z in x[2]):
                rk = [z for z in x[2] if z[0] == 'call' and z[1] == 'magic::get_rank']
                if rk and rk[0][2][0][0] == 'call' and rk[0][2][0][1] == 'color::Color::to_my_backrank':
                    col = rk[0][2][0][2][0]
                    if y == mk('&', [pc('King'), ('cc', CF, col)]):
                        # only when rights are held
                        held = any(c2[0] == 'call' and c2[1] == 'core::cmp::PartialEq::ne' and t2 is True and ENUM('castle_rights::CastleRights', 'NoRights') in c2[2]
                                   for c2, t2 in lits[:-1])
                        if held:
                            return 'king-home'
    if c[0] == 'bin' and c[1] in ('Ne', 'Eq') and c[3] == ('int', 1, 'u32') and c[2][0] == 'popcnt':
        rejecting = tv if c[1] == 'Ne' else not tv
        if rejecting:
            for col, nm in ((W_, 'white'), (B_, 'black')):
                if c[2][1] == mk('&', [pc('King'), cc(col)]):
                    return 'one-%s-king' % nm
            for cv in colvars:      # the same test inside a loop over both colours
                if c[2][1] == mk('&', [pc('King'), cc(cv)]):
                    return 'one-white-king+one-black-king'
    if c[0] == 'bin' and c[1] in ('Gt', 'Ge', 'Lt', 'Le') and c[2][0] == 'popcnt' and c[3][0] == 'int':
        op, k = c[1], c[3][1]
        if tv is False:             # rejecting on the false edge of `<` / `<=`
            op = {'Lt': 'Ge', 'Le': 'Gt', 'Gt': 'Le', 'Ge': 'Lt'}[op]
        if op in ('Gt', 'Ge'):
            bound = k if op == 'Gt' else k - 1
            for col, nm in ((W_, 'white'), (B_, 'black')):
                if c[2][1] == cc(col):
                    return 'men-bound-%s:%d' % (nm, bound)
            for cv in colvars:
                if c[2][1] == cc(cv):
                    return 'men-bound-white:%d+men-bound-black:%d' % (bound, bound)
    return None


def r2(ctx):
    R = 'C07.R2'
    an = ctx.an()
    s = summary(ctx, SANE, R)
    if s is None:
        return None
    body = s.body
    for l_ in for_loops(s):
        require_no_break(ctx, R, s, l_, SANE, sh(norm(l_['source']), 60) if l_['source'] is not None else 'colours / pieces',
                         'the checks in its body are skipped for the remaining colours / pieces')
    rets = [st for st in s.stores if st.get('local') and st['target'] == ('ref', ('l', 0), ())]
    # a tail expression that is a call (`a & b == EMPTY`) writes the return place as the call's destination
    rets += [dict(blk=c['blk'], line=c['line'], value=c['result'], local=True) for c in s.calls if c.get('dest') == ('ref', ('l', 0), ())]
    found = {}
    chains = []
    nfalse = 0
    colvars = []
    for l_ in for_loops(s):
        if l_['source'] is not None and 'ALL_COLORS' in sh(l_['source'], 300):
            E_ = norm(l_['elem'])
            colvars += [E_, ('mem', ('h', E_))]

    def expand(c, tv):
        """alternatives under which boolean expression c has truth value tv; each alternative a list of (atom, truth)"""
        if c[0] == 'int':
            return [[]] if bool(c[1]) == tv else []
        if c[0] == 'un' and c[1] == 'Not':
            return expand(c[2], not tv)
        if c[0] == 'ite' and all(v in (0, 1, 'otherwise') for v, _ in c[2]):
            out = []
            for v, sub in c[2]:
                for alt_s in expand(sub, tv):
                    for alt_c in expand(c[1], v != 0):
                        out.append(alt_c + alt_s)
            return out
        return [[(c, tv)]]

    accepting = []
    opaque_reject = []
    for st in rets:
        v = norm(st['value'])
        if v == ('int', 1, 'bool'):
            accepting.append(st)
            continue
        tail = None
        if v != ('int', 0, 'bool'):
            # `return <boolean expression>`: rejects when the expression is false, accepts otherwise
            tail = v
            accepting.append(st)
        nfalse += 1
        ds = dnf(s, st['blk'])
        for conj in ds:
            alts = [[]]
            gblocks = []
            for g in conj:
                if g['cond'] is None:
                    continue
                gblocks.append(g['blk'])
                raw = norm(g['cond'])
                if raw[0] == 'discr' or g['truth'] is None:
                    continue
                ex = expand(raw, g['truth'])
                alts = [a_ + e_ for a_ in alts for e_ in ex]
            if tail is not None:
                ex = expand(tail, False)
                alts = [a_ + e_ for a_ in alts for e_ in ex]
            for alt in alts:
                lits = [(bb(c_, an), t_) for c_, t_ in alt]
                lits = [(c_, t_) for c_, t_ in lits if c_[0] != 'discr']
                cls = classify_reject(ctx, s, lits, colvars=[bb(x, an) for x in colvars] + colvars)
                if cls is None and lits and any(isinstance(x, tuple) and x and x[0] == 'closure' for x in walk(lits[-1][0])):
                    opaque_reject.append(st)
                    ctx.inconclusive(R, 'is_sane rejects under a condition computed by an iterator adaptor with a closure (not analysed): ' + sh(lits[-1][0], 160))
                elif cls is None:
                    ctx.violation(R, SANE + ':unattributed:' + (sh(lits[-1][0], 60) if lits else 'unconditional'),
                                  'is_sane rejects under a condition that is not one of the required validity conjuncts: %s -- some valid position would be refused' % (
                                      sh(lits[-1][0], 300) if lits else 'unconditionally'), where(body, st['line']))
                else:
                    for one in cls.split('+'):
                        found.setdefault(one.split(':')[0], []).append((st['line'], one))
                        if gblocks or tail is not None:
                            chains.append((one.split(':')[0], gblocks or [st['blk']]))
    # no acceptance before every conjunct was tested: each rejection test (or the loop it sits in) dominates every `return true`
    cfg = s.cfg
    loops_ = cfg.loops()
    # the entry of a test: from its deciding guard upwards through the guards that only say "there is something to test"
    # (an Option / iterator discriminant, `x != y` on enum values such as piece kinds or `rights != NoRights`)
    cdeps = cfg.control_deps()

    def vacuity(a):
        c = s.switches.get(a)
        if c is None:
            return False
        c = norm(c)
        return c[0] == 'discr' or (c[0] == 'call' and c[1] in ('core::cmp::PartialEq::ne', 'core::cmp::PartialEq::eq'))

    def entry_of(g):
        e, seen = g, set()
        while True:
            seen.add(e)
            ps = [a for (a, _) in cdeps.get(e, ()) if a not in seen and vacuity(a) and cfg.dominates(a, e)]
            if not ps:
                return e
            e = ps[0]
    tests = [(cls, entry_of(gb[-1])) for cls, gb in chains]
    for st in accepting:
        skipped = []
        for cls, g in tests:
            if cfg.dominates(g, st['blk']) or any(g in blks and cfg.dominates(h, st['blk']) for h, blks in loops_.items()):
                continue
            if cls not in skipped:
                skipped.append(cls)
        if skipped:
            ctx.violation(R, SANE + ':accept-bypass:' + skipped[0], 'is_sane returns true on a path that bypasses the test(s) %s: a position violating them is accepted' % (
                ', '.join('"%s"' % x for x in skipped)), where(body, st['line']))
        else:
            ctx.ok(R, 'the accepting return is reached only after every rejection test (%d tests dominate it)' % len(tests), where(body, st['line']))
    need = ['piece-overlap', 'colour-overlap', 'combined-union', 'one-white-king', 'one-black-king', 'men-bound-white', 'men-bound-black',
            'ep-pawn', 'opponent-in-check', 'unmoved-rooks', 'king-home', 'kings-adjacent']
    desc = {'piece-overlap': 'two piece kinds on one square', 'colour-overlap': 'both colours on one square', 'combined-union': 'combined != union of the piece boards',
            'one-white-king': 'White does not have exactly one king', 'one-black-king': 'Black does not have exactly one king',
            'men-bound-white': 'White has more men than the move list can hold', 'men-bound-black': 'Black has more men than the move list can hold',
            'ep-pawn': 'en-passant square without an enemy pawn', 'opponent-in-check': 'the side not to move is in check',
            'unmoved-rooks': 'castling right without the rook on its home square', 'king-home': 'castling right without the king on its home square',
            'kings-adjacent': 'the kings stand next to each other'}
    for n in need:
        if n in found:
            ctx.ok(R, 'is_sane rejects: %s' % desc[n], where(body, found[n][0][0]))
        elif opaque_reject:
            ctx.inconclusive(R, 'no recognised rejection for "%s" (a rejection through an iterator adaptor is present but not analysed)' % desc[n])
        else:
            ctx.violation(R, SANE + ':missing:' + n, 'is_sane has no rejection for "%s": such a position is accepted' % desc[n], where(body))
    ctx.floor(R, '`return false` sites in is_sane', nfalse, 8)
    # the union closure
    cl = [k for k in ctx.facts().bodies if k.startswith(SANE + '::{closure#') and '{promoted' not in k]
    okc = False
    for k in cl:
        cs = ctx.an().summary(k)
        r = bb(cs.ret, an)
        if r[0] == 'bb' and r[1] == '|' and ('param', 2) in r[2] and any(y[0] == 'pieces' for y in r[2]):
            okc = True
    if okc:
        ctx.ok(R, 'the union is folded as `acc | pieces(next)` over ALL_PIECES', where(body))
    else:
        ctx.violation(R, SANE + ':union-closure', 'the fold that builds the union of the piece boards is not `acc | pieces(p)`', where(body))
    bounds = {}
    for n in ('men-bound-white', 'men-bound-black'):
        for _, cls in found.get(n, []):
            bounds[n] = int(cls.split(':')[1])
    return bounds


def r4(ctx, config='default'):
    R = 'C07.R4'
    aud = panics.Auditor(ctx, R, config)
    f = ctx.facts(config)
    n = 0
    nsq = 0
    for key in sorted(f.bodies):
        if '::{promoted' in key:
            continue
        body = f.bodies[key]
        if not any((t.get('callee') or '') in ('core::slice::<impl [T]>::get_unchecked', 'core::slice::<impl [T]>::get_unchecked_mut',
                                                 'core::hint::unreachable_unchecked') for _, t in body.calls()):
            continue
        s = ctx.an(config).summary(key)
        aud.reachset = set(f.bodies)
        for c in s.calls:
            if c['callee'] in ('core::slice::<impl [T]>::get_unchecked', 'core::slice::<impl [T]>::get_unchecked_mut'):
                n += 1
                base = c['argvals'][0]
                idx = norm(aud.il.inline(c['argvals'][1]))
                ln = container_len(aud, s, c, base)
                env = aud.guard_env(s, c['blk'])
                r = aud.rng(idx, s, c['blk'], env)
                desc = '%s: get_unchecked(%s)[%s]' % (key, sh(base, 60), sh(idx, 70))
                if ln is None and key.startswith('cache_table::CacheTable') and \
                        match(('bin', 'BitAnd', ANY, ('field', ('mem', ('p', 1)), 'mask')), idx) is not None and \
                        any(x == ('field', ('mem', ('p', 1)), 'table') for x in walk(norm(base))):
                    ctx.ok(R, '%s -- index is `x & self.mask` into self.table; mask = len - 1 with len a power of two is established by the '
                           'constructor and never changed (C19.R1/R2)' % desc, where(body, c['line']))
                elif ln is None:
                    ctx.violation(R, '%s:len:%s' % (key, sh(base, 60)), 'unchecked index into a container whose length is not known statically: ' + sh(base, 120),
                                  where(body, c['line']))
                elif r is None:
                    ctx.violation(R, '%s:index:%s' % (key, sh(idx, 80)), 'unchecked index %s has no provable bound (length %d)' % (sh(idx, 160), ln), where(body, c['line']))
                elif r[1] < ln:
                    ctx.ok(R, '%s -- index <= %d < length %d' % (desc, r[1], ln), where(body, c['line']))
                else:
                    ctx.violation(R, '%s:oob:%s' % (key, sh(idx, 80)), 'unchecked index %s can reach %d but the length is %d: out-of-bounds read/write' % (
                        sh(idx, 160), r[1], ln), where(body, c['line']))
            elif c['callee'] == 'core::hint::unreachable_unchecked':
                n += 1
                why = aud.discharge_call(s, c, 'panic')
                if why:
                    ctx.ok(R, '%s: unreachable_unchecked -- %s' % (key, why), where(body, c['line']))
                else:
                    ctx.violation(R, key + ':unreachable_unchecked', 'unreachable_unchecked is not behind an exhaustive switch on a masked value: undefined behaviour if reached',
                                  where(body, c['line']))
    ctx.floor(R, 'unchecked index / unreachable sites (%s)' % config, n, 30)
    # the Square < 64 invariant
    adt = f.adts.get('square::Square')
    if adt['variants'][0]['fields'][0]['pub']:
        ctx.violation(R, 'square::Square:pub-field', 'Square\'s field is public: any value can be constructed, table indices are unbounded', '%s:%s' % (adt['file'], adt['lo']))
    else:
        ctx.ok(R, 'Square\'s field is private', '%s:%s' % (adt['file'], adt['lo']))
    ctors = set()
    for key, body in f.bodies.items():
        if '::{promoted' in key:
            continue
        for bi in body.reachable():
            for st in body.blocks[bi]['stmts']:
                if st['k'] == 'assign' and st['rv']['rv'] == 'agg' and st['rv'].get('adt') == 'square::Square':
                    ctors.add(key)
    derived = {it for imp in f.impls if imp.get('derived') for it in imp['items']}
    for key in sorted(ctors - derived):
        s = ctx.an(config).summary(key)
        vals = [x for x in walk(norm(aud.il.inline(s.ret))) if x[0] == 'agg' and x[1] == 'square::Square']
        ok = bool(vals)
        for v in vals:
            r = aud.rng(dict(v[3])['0'], s, 0)
            if not r or r[1] > 63:
                ok = False
        if ok:
            ctx.ok(R, 'Square constructed in %s is < 64' % key, where(s.body))
        else:
            ctx.violation(R, key + ':square-range', '%s can construct a Square >= 64 (table lookups are unchecked)' % key, where(s.body))
    t = T.Tables(f)
    bad = []
    for path, c in f.consts.items():
        if c['ty'] == 'square::Square' and 'int' in c and int(c['int']) > 63:
            bad.append(path)
    alls = t.u8s('square::ALL_SQUARES')
    if alls is not None and (len(alls) != 64 or sorted(alls) != list(range(64))):
        bad.append('square::ALL_SQUARES')
    if bad:
        ctx.violation(R, 'square-constants:' + bad[0], 'Square constants out of range: %s' % bad[:3], '')
    else:
        ctx.ok(R, 'all Square constants (A1..H8, ALL_SQUARES) are 0..63', '')


def container_len(aud, s, c, base):
    """static length of the slice passed to get_unchecked"""
    f = aud.f
    b = norm(base)
    if b[0] == 'ref':
        # &mut place: type from the root
        root, path = b[1], b[2]
        if root[0] == 'p':
            ty = s.body.locals[root[1]]['ty'].lstrip('&').replace('mut ', '', 1)
        elif root[0] == 'l':
            ty = s.body.locals[root[1]]['ty']
        else:
            ty = aud.type_of(root[1], s) if root[0] == 'h' else None
            if ty and ty.startswith('&'):
                ty = ty.lstrip('&').replace('mut ', '', 1)
        for el in path:
            if ty is None:
                return None
            if el[0] == 'f':
                a = f.adts.get(ty.split('<')[0])
                nt = None
                if a:
                    for v in a['variants']:
                        for fl in v['fields']:
                            if fl['name'] == el[1]:
                                nt = fl['ty']
                ty = nt
            elif el[0] == 'i':
                ty = ty[1:-1].rsplit(';', 1)[0].strip() if ty.startswith('[') and ';' in ty else None
    else:
        ty = aud.type_of(b, s)
        if ty is None and b[0] == 'constdef':
            cc_ = f.consts.get(b[1])
            ty = cc_['ty'] if cc_ else None
    if ty is None:
        return None
    ty = ty.lstrip('&')
    ty = aud.il.resolve_array_ty(ty)
    if ty.startswith('[') and ';' in ty:
        n = ty[1:-1].rsplit(';', 1)[1].strip()
        if n.isdigit():
            return int(n)
    # slice inside a Box / Vec: length is a runtime value -> handled by dedicated rules (C19.R2)
    return None


def r5(ctx, bounds):
    R = 'C07.R5'
    f = ctx.facts()
    an = ctx.an()
    # capacity from the MoveList type
    cap = None
    ty = None
    for k, fn in f.fns.items():
        if k == 'movegen::movegen::MoveGen::enumerate_moves':
            ty = fn['output']
    import re
    m = re.search(r'ArrayVec<[^,]+, (\d+)>', ty or '')
    if m:
        cap = int(m.group(1))
    if cap is None:
        ctx.inconclusive(R, 'capacity of the move list not found in the type %s' % ty)
        return
    # push inventory
    PUSH = 'arrayvec::arrayvec::ArrayVec::<T, CAP>::push_unchecked'
    per_piece = 0
    ep = 0
    king = 0
    other = []
    npush = 0
    for key in sorted(f.bodies):
        if '::{promoted' in key:
            continue
        body = f.bodies[key]
        if not any(t.get('callee') == PUSH for _, t in body.calls()):
            continue
        s = an.summary(key)
        loops = for_loops(s)
        for c in s.calls:
            if c['callee'] != PUSH:
                continue
            npush += 1
            inl = [l for l in loops if c['blk'] in l['blocks']]
            if not inl:
                # exactly once per call: not inside any loop at all
                if s.cfg.in_loop(c['blk']):
                    other.append((key, c['line'], 'in an unrecognised loop'))
                else:
                    king += 1
                continue
            l = inl[0]
            src = bb(l['source'], an)
            txt = repr(src)
            # one push per iteration: the push block is not inside a nested loop
            nested = [x for x in loops if x is not l and c['blk'] in x['blocks']]
            if len(nested) > 0 and False:
                other.append((key, c['line'], 'nested loop'))
            if "'pinned'" in txt and "'pieces'" in txt and 'get_adjacent_files' not in txt:
                per_piece += 1
            elif 'get_adjacent_files' in txt and 'get_rank' in txt:
                ep += 1
            else:
                other.append((key, c['line'], 'loop over ' + sh(src, 80)))
    if other:
        k0 = other[0]
        ctx.violation(R, '%s:push-site' % k0[0], 'a push_unchecked site is not one of: per-piece loop over pinned/unpinned pieces, en-passant loop, single king entry (%s)' % k0[2],
                      '%s:%s' % (f.body(k0[0]).file, k0[1]))
        return
    ctx.floor(R, 'push_unchecked sites', npush, 5)
    men = []
    for n in ('men-bound-white', 'men-bound-black'):
        men.append(bounds.get(n, 63) if bounds else 63)
    M = max(men)
    need = M + 2 * (1 if ep else 0)
    ctx.instance(R, 'push sites: %d per-piece loop pushes (each piece is in exactly one of the disjoint loops `& !pinned` / `& pinned`), %d en-passant '
                 'loop push (<= 2 squares: adjacent files on one rank), %d single king push' % (per_piece, ep, king), '')
    if cap >= need:
        ctx.ok(R, 'move list capacity %d >= %d men per side admitted by is_sane + 2 en-passant entries' % (cap, M), '')
    else:
        ctx.violation(R, 'movegen::movegen::MoveList:capacity', 'the move list holds %d entries and is filled with push_unchecked, but is_sane admits up to %d men per '
                      'side: up to %d entries can be pushed (one per man plus two en-passant captures) -- out-of-bounds write' % (cap, M, need), '')


def run(ctx):
    bb(('unit',), ctx.an())
    panics.audit(ctx, 'C07.R1', ENTRIES_TEXT + ENTRIES_PLAY)
    bounds = r2(ctx)
    c05.r2(ctx, rule='C07.R3')
    r4(ctx)
    r5(ctx, bounds or {})
    # R6 BUILDER-STATE (= C06.R1/R4): what `arbitrary builder state` means -- the en-passant square is derived from the file and
    # the side to move AT CONVERSION TIME, setup() stores its arguments in the matching fields
    from . import c06
    sub = Sub(ctx, {'C06.R1': 'C07.R6', 'C06.R4': 'C07.R6'})
    c06.r1_r5(sub)
    c06.r4(sub)
