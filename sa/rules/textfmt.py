"""Shared helpers for the text-format rules (C06, C12, C13): format_args decoding, Display tables."""
from .common import *


def decode_template(arr):
    """rustc's compact format_args template: 0xC0 = next argument, n (1..127) = n literal bytes follow, 0 = end"""
    if arr[0] != 'array':
        return None
    bs = []
    for x in arr[1]:
        if x[0] != 'int':
            return None
        bs.append(x[1])
    out = []
    i = 0
    argi = 0
    while i < len(bs):
        b = bs[i]
        if b == 0:
            break
        if b == 0xC0:
            out.append(('arg', argi))
            argi += 1
            i += 1
        elif b < 0x80:
            out.append(('lit', bytes(bs[i + 1:i + 1 + b]).decode('utf-8', 'replace')))
            i += 1 + b
        else:
            return None
    return out


def fmt_parts(e):
    """parts of a `write!`/`format!` expression: list of ('lit', s) | ('arg', expr); None if not recognised"""
    e = norm(e)
    for x in walk(e):
        if x[0] == 'call' and x[1].startswith('core::fmt::Arguments::<') and x[1].endswith('::new') and len(x[2]) == 2:
            tpl = decode_template(x[2][0])
            if tpl is None or x[2][1][0] != 'array':
                return None
            args = []
            for a in x[2][1][1]:
                if a[0] == 'call' and 'Argument' in a[1] and a[1].endswith('new_display'):
                    args.append(a[2][0])
                else:
                    return None
            return [p if p[0] == 'lit' else ('arg', args[p[1]]) for p in tpl]
        if x[0] == 'call' and x[1].endswith('Arguments::<\'a>::from_str') and x[2] and x[2][0][0] == 'str':
            return [('lit', x[2][0][1])]
    return None


def piece_letters(ctx, R):
    """Piece -> lower-case letter from `impl Display for Piece`"""
    s = summary(ctx, '<piece::Piece as core::fmt::Display>::fmt', R)
    if s is None:
        return None
    parts = fmt_parts(s.ret)
    if not parts or len(parts) != 1 or parts[0][0] != 'arg':
        return None
    t = parts[0][1]
    if t[0] != 'ite' or t[1] != ('discr', ('mem', ('p', 1))):
        return None
    out = {}
    for v, leaf in t[2]:
        if v == 'otherwise':
            continue
        name = ctx.facts().enum_variant('piece::Piece', v)
        if name is None or leaf[0] != 'str':
            return None
        out[name] = leaf[1]
    return out


def untry(e):
    """strip the `?` plumbing: (branch(X) as Continue).0 -> X's success value marker ('ok', X)"""
    if not isinstance(e, tuple) or not e:
        return e
    if e[0] == 'field' and e[2] == '0' and e[1][0] == 'variant' and e[1][2] == 'Continue' and e[1][1][0] == 'call' \
            and e[1][1][1].endswith('::branch'):
        return ('ok', untry(e[1][1][2][0]))
    if e[0] == 'call' and e[1] == 'core::option::Option::<T>::ok_or':
        return ('some', untry(e[2][0]))
    if e[0] == 'mem' and e[1][0] == 'h':
        return untry(e[1][1])
    return tuple(untry(x) if isinstance(x, tuple) else x for x in e)
