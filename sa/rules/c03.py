"""C03 — check, pin and occupancy information always matches the position.

R1 XOR-LOCKSTEP: pieces / color_combined / combined (and hash) are written field-wise by exactly one
   function; in it the four updates use the same square set, indexed by the piece / colour argument;
   every call site passes a single-square set  => the three occupancy views agree on every Board.
R2 CACHE-FRESH (typestate): in every public function that produces a Board, after the last event
   that can change what the caches depend on (placement or side to move), every path to a return
   passes the from-scratch recomputation on that object -- or the function is an inline recomputer,
   for which: checkers/pinned are reset before any other write to them and no placement change is
   reachable once the slider scan has started.  DEFINITELY-RESET (must-analysis, also on the from-scratch
   routine): on every path each cache is overwritten by a value that does not read it before it is
   updated in place and before every return.
R3 SCAN-CLONES: the slider scans (from-scratch routine and the two move-application tails) have the
   same shape modulo roles: attackers = cc(A) & ((bishop_rays(k) & (B|Q)) | (rook_rays(k) & (R|Q))),
   per attacker `between(a,k) & combined`: empty -> checker, popcount 1 -> pinned; k = king of the
   side that is to move WHEN THE FUNCTION RETURNS, A its opponent; all placement reads are of the
   final placement. Direct checks: the from-scratch routine adds knight and pawn attackers; the
   incremental ones add the knight term exactly on knight-move and knight-promotion paths and the
   pawn term exactly on the non-promoting pawn paths.
R4 PIECE-ON-TREE: piece_on is None iff the square is not in `combined`, and each Some(X) leaf is
   reached exactly in the world "the square is in board X only"; color_on and king_square shapes."""
from .common import *
from ..bb import bb, mk, cnot
from ..expr import peel_upd, mk_field
from . import c08

LEVEL = 'other'
EXHAUSTIVE = True
EXPLANATION = ('Effect inventory (single writer of the placement fields), typestate over the CFG of every Board-producing '
               'function (caches recomputed after the last dependency change on all paths; each cache definitely overwritten before it is updated or returned), sibling comparison of the three '
               'slider-scan copies in a canonical BitBoard algebra with role checking against the side to move at return, '
               'path classification of the direct-check terms, predicate abstraction of piece_on over the six piece worlds.')
NOT_DECIDED = ('"reported checkers are exactly the attacking pieces" and equality with the freshly parsed position are value '
               'properties; the rules decide the structural necessary conditions named above')

BOARD = 'board::Board'
DEPS = {'pieces', 'color_combined', 'combined', 'side_to_move'}
PLACEMENT = {'pieces', 'color_combined', 'combined'}
UPI = 'board::Board::update_pin_info'
P = lambda n: ('enum', 'piece::Piece', n)


def r1(ctx):
    R = 'C03.R1'
    f = ctx.facts()
    eff = ctx.eff()
    tog = None
    for fld in ('pieces', 'color_combined', 'combined', 'hash'):
        ws = sorted(k for k in eff.direct if (BOARD, fld) in eff.direct[k] and '::{' not in k)
        if len(ws) == 1:
            ctx.ok(R, 'single field-wise writer of Board.%s: %s' % (fld, ws[0]), where(f.body(ws[0])))
            if tog is None:
                tog = ws[0]
            elif tog != ws[0]:
                ctx.violation(R, 'writers:%s' % fld, 'Board.%s is written by %s but other placement fields by %s' % (fld, ws[0], tog),
                              where(f.body(ws[0])))
        elif not ws:
            ctx.inconclusive(R, 'no writer of Board.%s found (anchor lost)' % fld)
        else:
            ctx.violation(R, 'writers:%s:%s' % (fld, ','.join(ws)), 'Board.%s is written field-wise by %s: the occupancy views '
                          'can drift apart' % (fld, ws), where(f.body(ws[-1])))
    if tog:
        c08.lockstep(ctx, R, tog)
    return tog


# ------------------------------------------------------------------------------------------ R2

def produces_board(fn):
    out = fn.get('output', '')
    return 'board::Board' in out or any(i.startswith('&mut board::Board') for i in fn.get('inputs', []))


def event_kind(ctx, callee, decl=None, resolved=True):
    """effect of a call on the cache typestate: 'clean' | 'dirty' | None"""
    eff = ctx.eff()
    if callee == UPI:
        return 'clean'
    ts = eff.targets(callee, decl, resolved)
    if not ts:
        return None
    w = set()
    for t in ts:
        w |= {f for a, f in eff.writes(t) if a == BOARD}
    if '*' in w:
        w |= DEPS
    if w & DEPS:
        # a helper that itself ends clean on all paths counts as clean
        if all(helper_clean(ctx, t) for t in ts):
            return 'clean'
        return 'dirty'
    return None


_HC = {}


class _Collect:
    """stand-in for ctx that only records whether a rule complained"""

    def __init__(self, ctx):
        self.ctx = ctx
        self.bad = 0

    def __getattr__(self, name):
        return getattr(self.ctx, name)

    def ok(self, *a, **k):
        pass

    def instance(self, *a, **k):
        pass

    def note(self, *a, **k):
        pass

    def violation(self, *a, **k):
        self.bad += 1

    def inconclusive(self, *a, **k):
        self.bad += 1

    def floor(self, *a, **k):
        return True


def helper_clean(ctx, key):
    k = (id(ctx), key)
    if k not in _HC:
        _HC[k] = False
        st = typestate(ctx, key)
        ok = st is not None and st['has_clean'] and not st['dirty_returns']
        if not ok and key in ctx.facts().bodies:
            # an inline recomputer (writes checkers/pinned itself, like make_move): clean iff it meets the recomputer rules
            eff = ctx.eff()
            if (BOARD, 'checkers') in eff.direct.get(key, ()):
                col = _Collect(ctx)
                try:
                    recomputer(col, 'C03.R2', key)
                    ok = col.bad == 0
                except Exception:
                    ok = False
        _HC[k] = ok
    return _HC[k]


def typestate(ctx, key):
    f = ctx.facts()
    body = f.body(key)
    if body is None:
        return None
    from ..cfg import CFG
    cfg = CFG(body)
    # per-block transfer
    def transfer(bi, state):
        b = body.blocks[bi]
        for st in b['stmts']:
            if st['k'] == 'assign':
                for e in st['pl']['p']:
                    if isinstance(e, dict) and e.get('adt') == BOARD and e.get('n') in DEPS:
                        state = 'dirty'
                # whole-object copy from another board: caches copied with it, consistent
        t = b['term']
        if t['k'] == 'call' and t.get('callee'):
            lent = False
            for a in t['args']:
                pl = a.get('c') or a.get('m')
                if pl is not None and not pl['p'] and body.locals[pl['l']]['ty'].startswith('&mut board::Board'):
                    lent = True
            if lent:
                ek = event_kind(ctx, t['callee'], t.get('decl'), bool(t.get('resolved')))
                if ek:
                    state = ek
            else:
                # the board is handed BY VALUE to a crate function that produces the board to return
                # (`return result.validate_edit()`): the obligation moves into that function
                moved = False
                for a in t['args']:
                    pl = a.get('m') or a.get('c')
                    if pl is not None and not pl['p'] and body.locals[pl['l']]['ty'] == BOARD:
                        moved = True
                fn_ = f.fns.get(t['callee']) or {}
                if moved and t['callee'] in f.bodies and 'board::Board' in str(fn_.get('output', '')) and helper_clean(ctx, t['callee']):
                    state = 'clean'
        return state
    instate = {0: 'clean'}
    order = cfg.order
    changed = True
    out = {}
    while changed:
        changed = False
        for bi in order:
            preds = [p for p in cfg.pred[bi] if p in out]
            if bi == 0:
                s_in = 'clean'
                if any(out[p] == 'dirty' for p in preds):
                    s_in = 'dirty'
            elif not preds:
                continue
            else:
                s_in = 'dirty' if any(out[p] == 'dirty' for p in preds) else 'clean'
            s_out = transfer(bi, s_in)
            if out.get(bi) != s_out or instate.get(bi) != s_in:
                out[bi] = s_out
                instate[bi] = s_in
                changed = True
    rets = body.return_blocks()
    has_clean = any(t['k'] == 'call' and t.get('callee') and event_kind(ctx, t['callee'], t.get('decl'), bool(t.get('resolved'))) == 'clean'
                    for _, t in body.calls())
    return dict(dirty_returns=[r for r in rets if out.get(r) == 'dirty'], has_clean=has_clean, body=body, out=out)


def r2(ctx):
    R = 'C03.R2'
    f = ctx.facts()
    eff = ctx.eff()
    n = 0
    recomputers = sorted(k for k in eff.direct if (BOARD, 'checkers') in eff.direct[k] and '::{' not in k and k != UPI)
    for key, fn in sorted(f.fns.items()):
        if not produces_board(fn) or key not in f.bodies or '::{' in key:
            continue
        is_pub = fn.get('pub') or 'impl_trait' in fn
        if not is_pub:
            continue
        body = f.body(key)
        w = {fld for a, fld in eff.writes(key) if a == BOARD}
        touches = bool((w & DEPS) or '*' in w)
        if not touches:
            continue
        if key in recomputers:
            continue
        n += 1
        st = typestate(ctx, key)
        if st['dirty_returns']:
            ln = body.blocks[st['dirty_returns'][0]]['term']['line']
            ctx.violation(R, key, 'a path changes placement or side to move and returns without recomputing checkers/pinned '
                          'afterwards (update_pin_info must follow the last such change)', where(body, ln))
        else:
            ctx.ok(R, '%s: every return is reached with checkers/pinned recomputed after the last dependency change' % key,
                   where(body))
    # a private helper that writes checkers/pinned and is called only from recomputers (the slider scan split out of
    # make_move / make_move_new): the recomputation is then spread over two functions, which this rule does not follow
    split = []
    for key in list(recomputers):
        fn = f.fns.get(key) or {}
        callers = sorted(k for k, b_ in f.bodies.items() if '::{' not in k and any(t_.get('callee') == key for _, t_ in b_.calls()))
        if not fn.get('pub') and 'impl_trait' not in fn and callers and all(c_ in recomputers or c_ == UPI for c_ in callers):
            split.append((key, callers))
    for key, callers in split:
        recomputers.remove(key)
        ctx.inconclusive(R, 'the check/pin recomputation of %s is split into the private helper %s: the split form is not analysed' % (
            [c_.rsplit('::', 1)[-1] for c_ in callers], key))
    for key in recomputers + ([UPI] if UPI in f.bodies else []):
        n += 1
        recomputer(ctx, R, key)
    ctx.floor(R, 'Board-producing functions under the cache typestate', n, 4)
    return recomputers


def reads_field(v, fld):
    return any(isinstance(x, tuple) and len(x) == 3 and x[0] == 'field' and x[2] == fld for x in walk_all(v))


def definitely_reset(ctx, R, key, s):
    """Forward must-analysis: on every path, each of checkers / pinned is overwritten by a value that does not read it
    before it is updated in place and before the function returns (a stale cache never survives a recomputation)."""
    body, cfg = s.body, s.cfg
    FL = ('checkers', 'pinned')
    ev = {}
    for st in s.stores:
        t = st['target']
        if t[2] and t[2][-1][0] == 'f' and t[2][-1][1] in FL:
            f_ = t[2][-1][1]
            ev.setdefault(st['blk'], []).append(('set' if not reads_field(st['value'], f_) else 'use', f_, st['line']))
    for c in s.calls:
        for a in c['args']:
            if a[0] == 'ref' and a[2] and a[2][-1][0] == 'f' and a[2][-1][1] in FL and c['callee'] and 'assign' in c['callee']:
                ev.setdefault(c['blk'], []).append(('use', a[2][-1][1], c['line']))
        if c['callee'] == UPI:
            for f_ in FL:
                ev.setdefault(c['blk'], []).append(('set', f_, c['line']))
    out = {}
    bad = {}
    changed = True
    while changed:
        changed = False
        for bi in cfg.order:
            preds = [p for p in cfg.pred[bi] if p in out]
            if bi == 0:
                st_in = frozenset()
            elif not preds:
                continue
            else:
                st_in = frozenset.intersection(*[out[p] for p in preds])
            cur = set(st_in)
            for kind, f_, ln in ev.get(bi, []):
                if kind == 'set':
                    cur.add(f_)
                elif f_ not in cur:
                    bad.setdefault((f_, 'update'), ln)
            cur = frozenset(cur)
            if out.get(bi) != cur:
                out[bi] = cur
                changed = True
    # the fixpoint is reached from below on a must-analysis started with the entry only: recompute the uses at the end
    bad = {}
    for bi in cfg.order:
        if bi not in out:
            continue
        preds = [p for p in cfg.pred[bi] if p in out]
        cur = set() if bi == 0 or not preds else set(frozenset.intersection(*[out[p] for p in preds]))
        for kind, f_, ln in ev.get(bi, []):
            if kind == 'set':
                cur.add(f_)
            elif f_ not in cur:
                bad.setdefault((f_, 'is updated in place'), ln)
    for r in body.return_blocks():
        if r in out:
            for f_ in FL:
                if f_ not in out[r]:
                    bad.setdefault((f_, 'reaches a return'), body.blocks[r]['term']['line'])
    for f_ in FL:
        hits = sorted((k, ln) for k, ln in bad.items() if k[0] == f_)
        if hits:
            (_, what), ln = hits[0]
            ctx.violation(R, '%s:stale:%s' % (key, f_), 'on some path `%s` %s without having been overwritten first: the old value '
                          'of the cache survives the recomputation' % (f_, what), where(body, ln))
        else:
            ctx.ok(R, '%s: on every path `%s` is overwritten before it is updated in place and before the return' % (key, f_), where(body))


def recomputer(ctx, R, key):
    s = ctx.an().summary(key)
    body = s.body
    cfg = s.cfg
    definitely_reset(ctx, R, key, s)
    if key == UPI:
        return
    # all writes to checkers / pinned: direct stores and &mut borrows handed to calls
    resets = {}
    others = []
    for st in s.stores:
        t = st['target']
        if t[2] and t[2][-1][0] == 'f' and t[2][-1][1] in ('checkers', 'pinned'):
            v = bb(st['value'])
            if v == ('bb0',):
                resets.setdefault(t[2][-1][1], []).append(st)
            else:
                others.append((st['blk'], st['line'], t[2][-1][1]))
    for c in s.calls:
        for a in c['args']:
            if a[0] == 'ref' and a[2] and a[2][-1][0] == 'f' and a[2][-1][1] in ('checkers', 'pinned'):
                others.append((c['blk'], c['line'], a[2][-1][1]))
    for fld in ('checkers', 'pinned'):
        if not resets.get(fld):
            ctx.violation(R, '%s:reset:%s' % (key, fld), '%s is never reset to EMPTY in the inline recomputer' % fld, where(body))
            continue
        rb = resets[fld][0]['blk']
        late = [o for o in others if o[2] == fld and not (cfg.dominates(rb, o[0]))]
        if late:
            ctx.violation(R, '%s:reset-order:%s' % (key, fld), 'a write to %s is not dominated by its reset' % fld,
                          where(body, late[0][1]))
        else:
            ctx.ok(R, '%s: `%s = EMPTY` dominates every other write to it' % (key, fld), where(body, resets[fld][0]['line']))
    # no placement change reachable from the scan loop
    scans = [l for l in for_loops(s) if scan_updates(s, l)]
    if len(scans) != 1:
        ctx.inconclusive(R, '%s: slider scan loop not recognised (%d candidates)' % (key, len(scans)))
        return
    h = scans[0]['header']
    reach = cfg.reachable_from(h)
    bad = []
    for c in s.calls:
        if c['blk'] in reach and c['callee']:
            ts = ctx.eff().targets(c['callee'], c['decl'], bool(c['term'].get('resolved')))
            w = set()
            for t in ts:
                w |= {fl for a, fl in ctx.eff().writes(t) if a == BOARD}
            if w & PLACEMENT or '*' in w:
                bad.append(c)
    for st in s.stores:
        if st['blk'] in reach:
            for el in st['target'][2]:
                if el[0] == 'f' and el[1] in PLACEMENT:
                    bad.append(dict(line=st['line'], callee='store'))
    if bad:
        ctx.violation(R, key + ':placement-after-scan', 'placement changes after the slider scan started (%s)' % bad[0]['callee'],
                      where(body, bad[0]['line']))
    else:
        ctx.ok(R, '%s: every placement toggle precedes the slider scan' % key, where(body))


# ------------------------------------------------------------------------------------------ R3

def scan_updates(s, loop):
    """bitxor_assign / store events on checkers and pinned inside the loop"""
    out = {}
    for c in s.calls:
        if c['blk'] in loop['blocks'] and c['callee'] and c['callee'].endswith('bitxor_assign') and c['args']:
            a = c['args'][0]
            if a[0] == 'ref' and a[2] and a[2][-1][0] == 'f' and a[2][-1][1] in ('checkers', 'pinned'):
                out.setdefault(a[2][-1][1], []).append(c)
    return out if set(out) == {'checkers', 'pinned'} else None


def split(args, pred):
    yes = [a for a in args if pred(a)]
    no = [a for a in args if not pred(a)]
    return yes, no


def is_bb(e, op, n=None):
    return isinstance(e, tuple) and e and e[0] == 'bb' and e[1] == op and (n is None or len(e[2]) == n)


def call_named(e, name):
    return isinstance(e, tuple) and e and e[0] == 'call' and e[1] == name


def parse_attackers(X):
    """X == cc(A) & ((bishop_rays(K) & (B|Q)) | (rook_rays(K) & (R|Q))) -> dict or error string.
    ccF / piecesF are the states of the colour and piece arrays that are read."""
    if not is_bb(X, '&', 2):
        return 'attackers is not an intersection of a colour board and a ray term: ' + sh(X, 200)
    ccs, rest = split(X[2], lambda a: a[0] == 'cc')
    if len(ccs) != 1 or len(rest) != 1 or not is_bb(rest[0], '|', 2):
        return 'attackers is not cc(A) & (diag | orth): ' + sh(X, 200)
    res = dict(ccF=ccs[0][1], A=ccs[0][2], K=set(), piecesF=set())
    seen = set()
    for term in rest[0][2]:
        if not is_bb(term, '&', 2):
            return 'ray term is not rays(k) & (X|Q): ' + sh(term, 200)
        rays, sets = split(term[2], lambda a: call_named(a, 'magic::get_bishop_rays') or call_named(a, 'magic::get_rook_rays'))
        if len(rays) != 1 or len(sets) != 1 or not is_bb(sets[0], '|', 2):
            return 'ray term is not rays(k) & (X|Q): ' + sh(term, 200)
        kind = 'bishop' if rays[0][1].endswith('bishop_rays') else 'rook'
        res['K'].add(rays[0][2][0])
        ps = sets[0][2]
        if any(p[0] != 'pieces' for p in ps):
            return 'slider sets are not piece boards'
        for p in ps:
            res['piecesF'].add(p[1])
        names = sorted(p[2][2] for p in ps if p[2][0] == 'enum')
        want = ['Bishop', 'Queen'] if kind == 'bishop' else ['Queen', 'Rook']
        if names != want:
            return '%s rays are intersected with %s instead of %s' % (kind, names, want)
        seen.add(kind)
    if seen != {'bishop', 'rook'}:
        return 'both ray kinds are required, found %s' % sorted(seen)
    if len(res['K']) != 1:
        return 'bishop and rook rays are taken from different squares'
    if len(res['piecesF']) != 1:
        return 'piece boards are read from different states of the board'
    res['K'] = list(res['K'])[0]
    res['piecesF'] = list(res['piecesF'])[0]
    return res


def parse_king(K):
    """K == lowest(pieces(King) & cc(C)) -> (states, C) or None"""
    if not (isinstance(K, tuple) and K[0] == 'lowest' and is_bb(K[1], '&', 2)):
        return None
    ps, cs = split(K[1][2], lambda a: a[0] == 'pieces')
    if len(ps) != 1 or len(cs) != 1 or cs[0][0] != 'cc' or ps[0][2] != P('King'):
        return None
    return (ps[0][1], cs[0][1]), cs[0][2]


def loop_guards(s, loop, blk):
    gs = [g for g in guards(s, blk) if g['blk'] in loop['blocks'] and g['blk'] != loop['header']]
    # drop the loop-exit test (switch on the iterator's Option)
    out = []
    for g in gs:
        c = g['cond']
        if c is not None and c[0] == 'discr' and norm(c[1]) == norm(loop['next']['result']):
            continue
        out.append(g)
    return out


def side_at_return(ctx, s, root):
    fin = s.final.get(root)
    if root == ('l', 0):
        fin = s.ret
    if fin is None:
        return None
    return bb(mk_field(fin, 'side_to_move', ctx.an()))


def result_root(s):
    """root of the Board object the function produces"""
    sig = s.body.facts.fns.get(s.body.key, {})
    ins = sig.get('inputs', [])
    for i, t in enumerate(ins):
        if t.startswith('&mut board::Board'):
            return ('p', i + 1)
    return ('l', 0)


def r3(ctx, recomputers, floor=2):
    R = 'C03.R3'
    f = ctx.facts()
    n = 0
    for key in [UPI] + list(recomputers):
        s = summary(ctx, key, R)
        if s is None:
            continue
        body = s.body
        loops = [(l, scan_updates(s, l)) for l in for_loops(s)]
        loops = [(l, u) for l, u in loops if u]
        if len(loops) != 1:
            ctx.inconclusive(R, '%s: slider scan loop not recognised' % key)
            continue
        n += 1
        loop, upd = loops[0]
        X = bb(loop['source']) if loop['source'] is not None else None
        pa = parse_attackers(X) if X is not None else 'iterator source not found'
        w = where(body, loop['next']['line'])
        if isinstance(pa, str):
            ctx.violation(R, key + ':attackers', pa, w)
            continue
        A, K = pa['A'], pa['K']
        o = (pa['ccF'], pa['piecesF'])
        # the scan runs on every path: it may be skipped only when the attacker set it would walk is empty
        skipped = False
        for blk_, cond_, tv_ in bypass_decisions(s, loop['header']):
            c_ = bb(cond_) if cond_ is not None else None
            if c_ is not None and tv_ is not None and c_[0] in ('bbeq', 'bbne') and ('bb0',) in c_[1:] and X in c_[1:] and ((c_[0] == 'bbeq') == tv_):
                ctx.ok(R, '%s: the scan is skipped only when its attacker set is empty' % key, w)
                continue
            skipped = True
            ctx.violation(R, key + ':scan-skipped', '%s can return without running the slider scan (deciding condition: %s is %s): slider checks and '
                          'pins are not recorded on that path' % (key, sh(c_, 120) if c_ is not None else 'not found', tv_), w)
        if not skipped:
            ctx.ok(R, '%s: every path to a return runs the slider scan' % key, w)
        ctx.ok(R, '%s: attackers = cc(A) & ((bishop_rays(k) & (B|Q)) | (rook_rays(k) & (R|Q)))' % key, w)
        # every attacker is examined: the only way out of the scan is the exhaustion of the attacker set (a pin found
        # after the second checker is still a pin)
        early = sorted({a for a, _ in loop_exits(s, loop) if a not in ctrl_blocks(s, loop)})
        if early:
            ctx.violation(R, key + ':early-exit', '%s leaves the slider scan before every attacker was examined (exit from block(s) %s): '
                          'checkers and pins of the remaining sliders are lost' % (key, early), w)
        else:
            ctx.ok(R, '%s: the scan examines every attacker (the only loop exit is iterator exhaustion)' % key, w)
        # placement is read from the current state of the produced object
        root = result_root(s)
        cands = []
        if loop['pre'] is not None:
            st = s.exit[loop['pre']]
            if root != ('l', 0):
                cands = [st.get(root, ('mem', root))]
            else:
                cands = [v for r_, v in st.items() if r_[0] == 'l' and s.body.locals[r_[1]]['ty'] == BOARD]
        cur = None
        for cv in cands:
            if bb(mk_field(cv, 'color_combined', ctx.an())) == pa['ccF'] and bb(mk_field(cv, 'pieces', ctx.an())) == pa['piecesF']:
                cur = cv
        if cur is not None:
            ctx.ok(R, '%s: the scan reads the placement of the produced board as it is when the scan starts' % key, w)
        else:
            ctx.violation(R, key + ':object', 'the scan reads a placement that is not the current state of the produced board', w)
        curM = bb(mk_field(cur, 'combined', ctx.an())) if cur is not None else None
        pk = parse_king(K)
        if pk is None:
            ctx.violation(R, key + ':king', 'k is not the lowest square of pieces(King) & cc(colour): ' + sh(K, 200), w)
            continue
        Ck = pk[1]
        S = side_at_return(ctx, s, root)
        if S is None:
            ctx.inconclusive(R, '%s: side to move at return not determined' % key)
            continue
        if Ck == S and A == cnot(S):
            ctx.ok(R, '%s: k = king of the side to move at return (%s), attackers = its opponent' % (key, sh(S, 60)), w)
        else:
            ctx.violation(R, key + ':roles', 'roles wrong: king colour %s, attacker colour %s, side to move at return %s' % (
                sh(Ck, 60), sh(A, 60), sh(S, 60)), w)
        # loop body
        E = bb(loop['elem'])
        def between_of(v):
            if not is_bb(v, '&', 2):
                return None
            bt, cm = split(v[2], lambda a: call_named(a, 'magic::between'))
            if len(bt) != 1 or len(cm) != 1 or curM is None or cm[0] != curM:
                return None
            if set(bt[0][2]) != {E, K}:
                return None
            return cm[0]
        # the two updates are classified by n = popcount(between(a,k) & combined): each guard is evaluated for n = 0, 1, 2, 3
        def guard_holds(g, n, betw):
            """does guard g (taken edge) hold when popcount(betw) == n?  None = not a condition on that count"""
            c = bb(g['cond'])
            pc = ('popcnt', betw)
            if c[0] in ('bbeq', 'bbne') and ('bb0',) in c[1:] and betw in c[1:]:
                tv = (n == 0) if c[0] == 'bbeq' else (n != 0)
                t_ = truth(g)
                return None if t_ is None else (tv == t_)
            if c == pc or (c[0] == 'cast' and c[1] == pc):
                vals = g['vals']
                if 'otherwise' in vals:
                    listed = [v for v in g['all'] if v != 'otherwise']
                    return n not in listed
                return n in vals
            if c[0] == 'bin' and c[1] in ('Eq', 'Ne', 'Lt', 'Le', 'Gt', 'Ge') and c[3][0] == 'int' and c[2] == pc:
                k = c[3][1]
                tv = {'Eq': n == k, 'Ne': n != k, 'Lt': n < k, 'Le': n <= k, 'Gt': n > k, 'Ge': n >= k}[c[1]]
                t_ = truth(g)
                return None if t_ is None else (tv == t_)
            return None

        def when(c, betw):
            gs = loop_guards(s, loop, c['blk'])
            out = set()
            for n_ in (0, 1, 2, 3):
                hs = [guard_holds(g, n_, betw) for g in gs]
                if any(h is None for h in hs):
                    return None
                if all(hs):
                    out.add(n_)
            return out
        okc = okp = False
        unk = False
        for c in upd['checkers']:
            v = bb(c['argvals'][1])
            betws = [x for g in loop_guards(s, loop, c['blk']) for x in walk(bb(g['cond'])) if between_of(x) is not None]
            if v == ('single', E) and betws:
                wn = when(c, betws[0])
                if wn is None:
                    unk = True
                elif wn == {0}:
                    okc = True
        for c in upd['pinned']:
            v = bb(c['argvals'][1])
            if between_of(v) is not None:
                wn = when(c, v)
                if wn is None:
                    unk = True
                elif wn == {1}:
                    okp = True
        if unk and not (okc and okp):
            ctx.inconclusive(R, '%s: the scan body is guarded by something other than the number of pieces between attacker and king' % key)
            continue
        if okc:
            ctx.ok(R, '%s: between(a,k) & combined empty -> checkers ^= {a}' % key, w)
        else:
            ctx.violation(R, key + ':checker-branch', 'scan body does not add the attacker to checkers exactly when nothing stands between', w)
        if okp:
            ctx.ok(R, '%s: exactly one piece between -> pinned ^= between' % key, w)
        else:
            ctx.violation(R, key + ':pin-branch', 'scan body does not record the single blocker as pinned exactly when popcount is 1', w)
        # direct checks
        direct(ctx, R, key, s, loop, o, A, K, Ck)
    ctx.floor(R, 'slider-scan copies', n, floor)


def direct(ctx, R, key, s, loop, o, A, K, Ck):
    body = s.body
    ups = []
    for c in s.calls:
        if c['blk'] in loop['blocks'] or not c['callee'] or not c['callee'].endswith('bitxor_assign') or not c['args']:
            continue
        a = c['args'][0]
        if a[0] == 'ref' and a[2] and a[2][-1][0] == 'f' and a[2][-1][1] == 'checkers':
            ups.append(c)

    def classify(v, incremental):
        if is_bb(v, '&'):
            kn, rest = split(v[2], lambda a: call_named(a, 'magic::get_knight_moves'))
            if len(kn) == 1 and kn[0][2][0] == K:
                if incremental and len(rest) == 1 and rest[0][0] == 'single':
                    return 'knight', rest[0][1]
                if not incremental and sorted(rest, key=repr) == sorted([('cc', o[0], A), ('pieces', o[1], P('Knight'))], key=repr):
                    return 'knight', None
        if call_named(v, 'magic::get_pawn_attacks') and len(v[2]) == 3 and v[2][0] == K and v[2][1] == Ck:
            t = v[2][2]
            if incremental and t[0] == 'single':
                return 'pawn', t[1]
            if not incremental and is_bb(t, '&', 2) and sorted(t[2], key=repr) == sorted([('cc', o[0], A), ('pieces', o[1], P('Pawn'))], key=repr):
                return 'pawn', None
        return 'other', None

    incremental = key != UPI
    if not incremental:
        # contributions: `checkers ^= v` updates and the terms of a direct `checkers = a ^ b` (or `a | b`) assignment
        vals = [(bb(c['argvals'][1]), c['blk']) for c in ups]
        for st in s.stores:
            t = st['target']
            if st['blk'] not in loop['blocks'] and t[2] and t[2][-1][0] == 'f' and t[2][-1][1] == 'checkers':
                v = bb(st['value'])
                if v == ('bb0',):
                    continue
                terms = list(v[2]) if (is_bb(v, '^') or is_bb(v, '|')) else [v]
                vals += [(t_, st['blk']) for t_ in terms if t_ != ('bb0',)]
        kinds = sorted(classify(v, False)[0] for v, _ in vals)
        unguarded = all(not [g for g in guards(s, b_) if g['blk'] not in loop['blocks']] for _, b_ in vals)
        if kinds == ['knight', 'pawn'] and unguarded:
            ctx.ok(R, '%s: adds knight attackers (knight_moves(k) & enemy knights) and pawn attackers (pawn_attacks(k, own colour, enemy pawns))' % key,
                   where(body, ups[0]['line'] if ups else None))
        else:
            why_ = 'found %s' % kinds if kinds != ['knight', 'pawn'] else \
                'they are added only under a condition (an early return or guard before them): on the other paths a knight or pawn check is lost'
            ctx.violation(R, key + ':direct', 'from-scratch routine must add exactly the knight and the pawn attackers of k on every path: %s' % why_,
                          where(body, (ups[0]['line'] if ups else None)))
        return
    # incremental: classify every path from entry to the scan by the moved piece
    M = None
    for c in s.calls:
        if c['callee'] == 'core::option::Option::<T>::unwrap' and c['argvals']:
            a = norm(c['argvals'][0])
            if a[0] == 'call' and a[1] == 'board::Board::piece_on' and a[2][1][0] == 'call' and a[2][1][1] == 'chess_move::ChessMove::get_source':
                M = norm(c['result'])
                DEST = ('call', 'chess_move::ChessMove::get_dest', a[2][1][2], a[2][1][3])
    if M is None:
        ctx.inconclusive(R, '%s: moved piece (piece_on(source).unwrap()) not recognised' % key)
        return
    upd_by_blk = {}
    for c in ups:
        upd_by_blk.setdefault(c['blk'], []).append(c)
    paths = enum_paths(s, 0, [loop['header']])
    if not paths or len(paths) > 5000:
        ctx.inconclusive(R, '%s: cannot enumerate paths to the scan (%d)' % (key, len(paths)))
        return
    bad = []
    classes = {}
    for path in paths:
        cls = None   # 'N', 'Npromo', 'P', 'promo', 'other'
        is_kn = is_pw = None
        promo = None
        promo_kn = None
        decided = {}
        feasible = True
        for (b, nx) in path:
            t = body.blocks[b]['term']
            if t['k'] != 'switch' or nx is None:
                continue
            cond = norm(s.switches.get(b)) if s.switches.get(b) is not None else None
            vals = switch_vals(body, b, nx)
            if cond is None:
                continue
            # the same (pure) condition tested twice on one path must come out the same way
            allv = [v for v, _ in t['targets']]
            concrete = set(vals) - {'otherwise'} if 'otherwise' not in vals else None
            prev = decided.get(cond)
            if prev is not None:
                pc, pall = prev
                if pc is not None and concrete is not None and not (pc & concrete):
                    feasible = False
                if pc is not None and concrete is None and pc <= set(allv):
                    feasible = False          # earlier: one of the listed values; now: none of them
                if pc is None and concrete is not None and concrete <= set(pall):
                    feasible = False
            decided[cond] = (concrete, allv)
            if cond[0] == 'call' and cond[1] == '<piece::Piece as core::cmp::PartialEq>::eq' and M in cond[2]:
                other = [x for x in cond[2] if x != M]
                tr = vals == ['otherwise']
                if other and other[0] == P('Knight'):
                    is_kn = tr
                if other and other[0] == P('Pawn'):
                    is_pw = tr
            if cond[0] == 'discr' and cond[1] == M:
                # `match moved { Knight => .., Pawn => .., _ => .. }`
                kd_ = ctx.facts().enum_discr('piece::Piece', 'Knight')
                pd_ = ctx.facts().enum_discr('piece::Piece', 'Pawn')
                if 'otherwise' in vals:
                    listed = [v for v, _ in t['targets']]
                    if kd_ in listed:
                        is_kn = False
                    if pd_ in listed:
                        is_pw = False
                else:
                    is_kn = (vals == [kd_])
                    is_pw = (vals == [pd_])
            if cond[0] == 'discr' and cond[1][0] == 'call' and cond[1][1] == 'chess_move::ChessMove::get_promotion':
                promo = (vals == [1])
            if cond[0] == 'discr' and cond[1][0] == 'field' and cond[1][1][0] == 'variant' and cond[1][1][1][0] == 'call' \
                    and cond[1][1][1][1] == 'chess_move::ChessMove::get_promotion':
                kd = ctx.facts().enum_discr('piece::Piece', 'Knight')
                promo_kn = (vals == [kd])
        if not feasible:
            continue
        if is_kn:
            cls = 'knight-move'
        elif is_pw:
            if promo_kn:
                cls = 'knight-promotion'
            elif promo is False or (promo is None and promo_kn is None):
                cls = 'pawn-no-promotion'
            elif promo_kn is None:
                cls = 'promotion-of-unknown-kind'     # the path does not say whether the new piece is a knight
            else:
                cls = 'other-promotion'
        elif is_kn is False and is_pw is False:
            cls = 'other-piece'
        else:
            cls = 'unclassified'
        found = []
        for (b, nx) in path:
            for c in upd_by_blk.get(b, []):
                k_, sq = classify(bb(c['argvals'][1]), True)
                found.append((k_, sq, c['line']))
        want = {'knight-move': ['knight'], 'knight-promotion': ['knight'], 'pawn-no-promotion': ['pawn']}.get(cls, [])
        got = [k_ for k_, _, _ in found]
        classes.setdefault(cls, 0)
        classes[cls] += 1
        if cls == 'unclassified':
            bad.append(('unclassified', path, found))
        elif cls == 'promotion-of-unknown-kind':
            bad.append((cls, 'a knight term exactly when the promotion piece is a knight (the slider scan never sees a knight)', got, found))
        elif got != want:
            bad.append((cls, want, got, found))
        else:
            for k_, sq, ln in found:
                if sq is not None and norm(sq) != DEST:
                    bad.append((cls, 'direct-check term does not test the destination square', sh(sq, 80), found))
    if any(b[0] == 'unclassified' for b in bad):
        ctx.inconclusive(R, '%s: %d path(s) could not be classified by the moved piece' % (key, sum(1 for b in bad if b[0] == 'unclassified')))
        return
    if bad:
        b = bad[0]
        ctx.violation(R, '%s:direct:%s' % (key, b[0]), 'on %s paths the direct-check updates are %s, required %s (%d of %d paths wrong)' % (
            b[0], b[2], b[1], len(bad), len(paths)), where(body, (b[3][0][2] if len(b) > 3 and b[3] else None)))
    else:
        ctx.ok(R, '%s: knight term exactly on knight-move/knight-promotion paths, pawn term exactly on non-promoting pawn paths '
               '(%d paths: %s)' % (key, len(paths), dict(sorted(classes.items()))), where(body))


# ------------------------------------------------------------------------------------------ R4

PIECES = ['Pawn', 'Knight', 'Bishop', 'Rook', 'Queen', 'King']


def member(e, world, obj):
    """is the probed square in bitboard expression e, in the world where it stands in board `world` only"""
    if e[0] == 'pieces' and e[1] == ('field', obj, 'pieces') and e[2][0] == 'enum':
        return e[2][2] == world
    if e == ('field', obj, 'combined'):
        return world is not None
    if e[0] == 'bb':
        vals = [member(a, world, obj) for a in e[2]]
        if any(v is None for v in vals):
            return None
        if e[1] == '&':
            return all(vals)
        if e[1] == '|':
            return any(vals)
        if e[1] == '^':
            return sum(vals) % 2 == 1
    if e[0] == 'bb0':
        return False
    return None


def r4(ctx):
    R = 'C03.R4'
    s = summary(ctx, 'board::Board::piece_on', R)
    if s is not None:
        obj = ('mem', ('p', 1))
        sq = ('single', ('param', 2))
        tree = bb(s.ret)
        none = ('agg', 'core::option::Option', 'None', ())
        bad = []
        unknown = False
        for world in [None] + PIECES:
            x = tree
            while x[0] == 'ite':
                c = x[1]
                tv = None
                if c[0] in ('bbeq', 'bbne') and ('bb0',) in c[1:]:
                    other = [y for y in c[1:] if y != ('bb0',)]
                    if other and is_bb(other[0], '&') and sq in other[0][2]:
                        rest = [y for y in other[0][2] if y != sq]
                        ms = [member(y, world, obj) for y in rest]
                        if None not in ms:
                            nonempty = all(ms)
                            tv = (not nonempty) if c[0] == 'bbeq' else nonempty
                if tv is None:
                    unknown = True
                    break
                nxt = None
                for v, sub in x[2]:
                    if (v == 0 and tv is False) or (v == 'otherwise' and tv is True):
                        nxt = sub
                x = nxt
                if x is None:
                    unknown = True
                    break
            if unknown:
                break
            want = none if world is None else ('agg', 'core::option::Option', 'Some', (('0', P(world)),))
            if x != want:
                bad.append('square in %s board only -> %s' % (world or 'no', sh(x, 60)))
        if unknown:
            ctx.inconclusive(R, 'piece_on decision tree not recognised: ' + sh(tree, 300))
        elif bad:
            ctx.violation(R, 'board::Board::piece_on', 'decision tree wrong: ' + '; '.join(bad), where(s.body))
        else:
            ctx.ok(R, 'piece_on: None iff not in combined; Some(X) exactly in world X (7 worlds)', where(s.body))
    s = summary(ctx, 'board::Board::color_on', R)
    if s is not None:
        obj = ('mem', ('p', 1))
        sq = ('single', ('param', 2))
        tree = bb(s.ret)
        bad = []
        unknown = False
        for world in (None, 'White', 'Black'):
            x = tree
            while x[0] == 'ite':
                c = x[1]
                tv = None
                if c[0] in ('bbeq', 'bbne') and ('bb0',) in c[1:]:
                    other = [y for y in c[1:] if y != ('bb0',)]
                    if other and is_bb(other[0], '&', 2) and sq in other[0][2]:
                        rest = [y for y in other[0][2] if y != sq][0]
                        if rest[0] == 'cc' and rest[1] == ('field', obj, 'color_combined') and rest[2][0] == 'enum':
                            nonempty = rest[2][2] == world
                            tv = (not nonempty) if c[0] == 'bbeq' else nonempty
                if tv is None:
                    unknown = True
                    break
                x = dict((('t' if v == 'otherwise' else 'f'), sub) for v, sub in x[2]).get('t' if tv else 'f')
                if x is None:
                    unknown = True
                    break
            if unknown:
                break
            want = ('agg', 'core::option::Option', 'None', ()) if world is None else \
                ('agg', 'core::option::Option', 'Some', (('0', ('enum', 'color::Color', world)),))
            if x != want:
                bad.append('square in %s colour board -> %s' % (world or 'neither', sh(x, 60)))
        if unknown:
            ctx.inconclusive(R, 'color_on decision tree not recognised: ' + sh(tree, 300))
        elif bad:
            ctx.violation(R, 'board::Board::color_on', 'decision tree wrong: ' + '; '.join(bad), where(s.body))
        else:
            ctx.ok(R, 'color_on: Some(c) exactly when the square is in colour board c (3 worlds)', where(s.body))
    s = summary(ctx, 'board::Board::king_square', R)
    if s is not None:
        v = bb(s.ret)
        pk = parse_king(v)
        if pk is not None and pk[0] == (('field', ('mem', ('p', 1)), 'pieces'), ('field', ('mem', ('p', 1)), 'color_combined')) and pk[1] == ('param', 2):
            ctx.ok(R, 'king_square(c) = lowest(pieces(King) & color_combined(c))', where(s.body))
        else:
            ctx.violation(R, 'board::Board::king_square', 'expected lowest(pieces(King) & color_combined(c)), got ' + sh(v, 200), where(s.body))
    for acc, fld in (('board::Board::checkers', 'checkers'), ('board::Board::pinned', 'pinned'), ('board::Board::combined', 'combined')):
        s = ctx.an().summary(acc)
        if s is None:
            continue
        v = norm(s.ret)
        if v == ('field', ('mem', ('p', 1)), fld):
            ctx.ok(R, '%s returns the %s field' % (acc, fld), where(s.body))
        else:
            ctx.violation(R, acc, 'accessor returns %s, not the %s field' % (sh(v, 100), fld), where(s.body))


def run(ctx):
    bb(('unit',), ctx.an())
    r1(ctx)
    rec = r2(ctx)
    r3(ctx, rec)
    r4(ctx)
    # R6 BUILD-PARITY: the from-scratch routine and the editing producers do the same with and without debug assertions
    debug_parity(ctx, 'C03.R6', [UPI, 'board::Board::set_piece', 'board::Board::clear_square', 'board::Board::null_move'])
    # R5 GEOMETRY (= C16.R1/R2): rays, between, knight and pawn attack tables the scans and direct checks read
    tables_dep(ctx, 'C03.R5', ['board::Board::make_move', 'board::Board::make_move_new', UPI],
               only=('magic::between', 'magic::get_bishop_rays', 'magic::get_rook_rays', 'magic::get_knight_moves', 'magic::get_pawn_attacks'))
