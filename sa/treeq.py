"""Semantic comparison of small decision expressions.

Two origin expressions that differ only in how a decision is spelled -- `if a {x} else {y}` vs `if !a {y} else {x}`,
`match c {White => .., Black => ..}` vs `if c == Color::White`, nested `if` vs `&&`, `!(a && b)` vs early returns,
`x != EMPTY` vs `!(x == EMPTY)` -- are compared by evaluating both under every valuation of their atomic conditions.

Atoms (decision variables):
  ('eq', a, b)       truth of a == b (operands sorted)          -- Eq / Ne / PartialEq::eq / ne / bbeq / bbne
  ('lt', a, b)       truth of a <  b                            -- Lt, Ge (negated), Gt (swapped), Le (swapped, negated)
  ('tag', x)         the discriminant of x                      -- discr(x) switches, x == EnumConst, is_some / is_none
  ('opaque', c)      any other boolean condition
The domain of a tag variable is the set of discriminant values mentioned anywhere plus one fresh value; a branch that
cannot be taken (`never`) compares equal to anything (unreachable `otherwise` arms of exhaustive matches).
No library code is run: this is evaluation of the extracted expression trees only."""
import itertools
from .expr import norm

COMM = {'BitAnd', 'BitOr', 'BitXor', 'Add', 'Mul', 'Eq', 'Ne', 'AddUnchecked'}
FRESH = 'fresh'


def word(e):
    """the single field of a newtype value (BitBoard(u64), Square(u8)) when it is syntactically available"""
    if isinstance(e, tuple) and e:
        if e[0] == 'agg' and len(e[3]) == 1 and e[3][0][0] == '0':
            return e[3][0][1]
        if e[0] == 'int' and isinstance(e[2], str) and '::' in e[2]:
            return ('int', e[1], 'word')
    return None


def simp(e):
    """newtype projections: (T{0: a}).0 -> a ; (k: T).0 -> k"""
    if not isinstance(e, tuple) or not e:
        return e
    e = tuple(simp(x) if isinstance(x, tuple) else x for x in e)
    if e[0] == 'field' and e[2] == '0':
        w = word(e[1])
        if w is not None:
            return w
    if e[0] == 'int' and e[2] in ('u64', 'u8', 'usize') and False:
        return e
    return e


class TreeEq:
    def __init__(self, facts, canon=None):
        self.facts = facts
        self.canon = canon or (lambda e: e)

    # ---- conditions
    def enum_tag(self, e):
        if isinstance(e, tuple) and e and e[0] == 'enum':
            return self.facts.enum_discr(e[1], e[2])
        if isinstance(e, tuple) and e and e[0] == 'agg' and not e[3] and e[1] in ('core::option::Option',):
            return 0 if e[2] == 'None' else 1
        return None

    def split(self, c):
        """condition -> (var, fn) with fn(value) -> branch selector value (int); for boolean conditions 0/1"""
        c = simp(self.canon(c))
        t = c[0]
        if t == 'int':
            return None, (lambda v, k=c[1]: k)
        if t == 'un' and c[1] == 'Not':
            var, fn = self.split(c[2])
            return var, (lambda v, fn=fn: 1 - fn(v))
        if t == 'bin' and c[1] in ('Eq', 'Ne'):
            a, b = c[2], c[3]
            neg = c[1] == 'Ne'
            for x, y in ((a, b), (b, a)):
                if x[0] == 'discr' and y[0] == 'int':
                    return ('tag', x[1]), (lambda v, k=y[1], neg=neg: int((v == k) != neg))
                k = self.enum_tag(y)
                if k is not None and x[0] not in ('enum',):
                    return ('tag', x), (lambda v, k=k, neg=neg: int((v == k) != neg))
            wa, wb = word(a), word(b)
            if wa is not None and wb is not None:
                a, b = wa, wb            # newtype equality is equality of the single field
            a, b = _w(a), _w(b)
            var = ('eq',) + tuple(sorted((a, b), key=repr))
            return var, (lambda v, neg=neg: int(bool(v) != neg))
        if t == 'bin' and c[1] in ('Lt', 'Ge', 'Gt', 'Le'):
            a, b = c[2], c[3]
            if c[1] in ('Gt', 'Le'):
                a, b = b, a
            neg = c[1] in ('Ge', 'Le')
            return ('lt', a, b), (lambda v, neg=neg: int(bool(v) != neg))
        if t in ('bbeq', 'bbne'):
            var = ('eq',) + tuple(sorted(c[1:3], key=repr))
            neg = t == 'bbne'
            return var, (lambda v, neg=neg: int(bool(v) != neg))
        if t == 'call':
            name = c[1]
            args = [a[1] if a[0] == 'constref' else a for a in c[2]]
            if (name.endswith('::eq') or name.endswith('::ne')) and 'PartialEq' in name and len(args) == 2:
                neg = name.endswith('::ne')
                sub = ('bin', 'Ne' if neg else 'Eq', args[0], args[1])
                return self.split(sub)
            if name.endswith('Option::<T>::is_some') or name.endswith('Option::<T>::is_none'):
                none = name.endswith('is_none')
                return ('tag', args[0]), (lambda v, none=none: int((v == 0) == none))
        if t == 'discr':
            return ('tag', c[1]), (lambda v: v)
        if t == 'ite':
            return ('nested', c), None
        return ('opaque', c), (lambda v: int(bool(v)))

    # ---- evaluation
    def collect(self, e, vars_):
        if not isinstance(e, tuple) or not e:
            return
        if e[0] == 'ite':
            self.collect_cond(e[1], vars_, [v for v, _ in e[2]])
            for _, x in e[2]:
                self.collect(x, vars_)
            return
        if e[0] in ('int', 'enum', 'str', 'param', 'mem'):
            return
        for x in e[1:]:
            if isinstance(x, tuple):
                self.collect(x, vars_)

    def collect_cond(self, c, vars_, case_vals):
        var, fn = self.split(c)
        if var is None:
            return
        if var[0] == 'nested':
            self.collect(var[1], vars_)
            return
        dom = vars_.setdefault(var, set())
        if var[0] == 'tag':
            cc = self.canon(c)
            if cc[0] == 'discr':
                dom.update(v for v in case_vals if v != 'otherwise')
            else:
                # comparisons with a constant: the constant's tag
                for k in range(0, 8):
                    pass
                dom.update(self._tag_consts(cc))
            dom.add(FRESH)
        else:
            dom.update((0, 1))
        # conditions may contain decisions themselves (operands)
        for x in var[1:]:
            if isinstance(x, tuple):
                self.collect(x, vars_)

    def _tag_consts(self, c):
        out = set()
        stack = [c]
        while stack:
            x = stack.pop()
            if not isinstance(x, tuple) or not x:
                continue
            k = self.enum_tag(x)
            if k is not None:
                out.add(k)
            if x[0] == 'int' and isinstance(x[1], int) and 0 <= x[1] < 64:
                out.add(x[1])
            if x[0] == 'call' and (x[1].endswith('is_some') or x[1].endswith('is_none')):
                out.update((0, 1))
            stack.extend(y for y in x[1:] if isinstance(y, tuple))
        return out

    def ev(self, e, env):
        if not isinstance(e, tuple) or not e:
            return e
        t = e[0]
        if t == 'ite':
            sel = self.cond_value(e[1], env)
            if sel is None:
                return ('unk', 'cond')
            for v, x in e[2]:
                if v == sel:
                    return self.ev(x, env)
            for v, x in e[2]:
                if v == 'otherwise':
                    return self.ev(x, env)
            return ('never',)
        if t in ('int', 'enum', 'str', 'param', 'mem'):
            return e
        out = tuple(self.ev(x, env) if isinstance(x, tuple) else x for x in e)
        if out[0] == 'field' and out[2] == '0' and word(out[1]) is not None:
            return word(out[1])
        if out[0] == 'un' and out[1] == 'Not' and out[2][0] == 'int' and out[2][2] == 'bool':
            return ('int', 1 - out[2][1], 'bool')
        if out[0] == 'bin' and out[1] in COMM:
            a, b = sorted(out[2:4], key=repr)
            out = (out[0], out[1], a, b) + out[4:]
        if any(isinstance(x, tuple) and x == ('never',) for x in out[1:]):
            return ('never',)
        return out

    def cond_value(self, c, env):
        var, fn = self.split(c)
        if var is None:
            return fn(None)
        if var[0] == 'nested':
            r = self.ev(var[1], env)
            if r[0] == 'int':
                return r[1]
            return None
        # operands of the variable may hold decisions too: the variable is keyed on its syntactic form (pre-evaluation)
        if var not in env:
            return None
        return fn(env[var])

    def equal(self, a, b, limit=20000):
        """(True, None) | (False, (valuation, leaf_a, leaf_b)) | (None, reason)"""
        a, b = simp(self.canon(a)), simp(self.canon(b))
        vars_ = {}
        self.collect(a, vars_)
        self.collect(b, vars_)
        names = sorted(vars_, key=repr)
        doms = [sorted(vars_[n], key=repr) for n in names]
        total = 1
        for d in doms:
            total *= max(1, len(d))
        if total > limit:
            return None, 'too many valuations (%d over %d conditions)' % (total, len(names))
        for combo in itertools.product(*doms):
            env = dict(zip(names, combo))
            la, lb = self.ev(a, env), self.ev(b, env)
            if la == ('never',) or lb == ('never',):
                continue
            if la != lb:
                return False, (env, la, lb)
        return True, None


def _w(e):
    # integer literals compare by value regardless of the width label
    if isinstance(e, tuple) and e and e[0] == 'int' and e[2] in ('u64', 'u8', 'usize', 'u32', 'word', 'isize', 'i32'):
        return ('int', e[1], 'word')
    return e


def strip_calls(e):
    """drop generic arguments and call-site ids of call nodes (so that hand-built expected expressions compare)"""
    if not isinstance(e, tuple) or not e:
        return e
    if e[0] == 'call':
        return ('call', e[1], tuple(strip_calls(a) for a in e[2]), ())
    if e[0] == 'constref' and len(e) == 2:
        return strip_calls(e[1])
    return tuple(strip_calls(x) if isinstance(x, tuple) else x for x in e)


def C(callee, *args):
    return ('call', callee, tuple(args), ())


def show_env(env, sh):
    return ', '.join('%s=%s' % (sh((k[0],) + tuple(k[1:]), 60) if False else _v(k, sh), v) for k, v in env.items())


def _v(k, sh):
    if k[0] == 'tag':
        return 'tag(%s)' % sh(k[1], 50)
    if k[0] == 'eq':
        return '(%s == %s)' % (sh(k[1], 40), sh(k[2], 40))
    if k[0] == 'lt':
        return '(%s < %s)' % (sh(k[1], 40), sh(k[2], 40))
    return sh(k[1], 60)
