"""Origin expressions: a forward value-flow pass over one MIR body.

For every operand the pass computes an *origin expression*: a tree over parameters, the initial
contents of the memory the parameters point to, constants, field/index projections, primitive
operators and call results.  It is use-def chasing made explicit (block-local value numbering with
structured merges), performed on one body at a time; no path constraints are accumulated, nothing
is solved and nothing of the analysed crate is executed.

Expr forms (tuples, hashable):
  ('param', n)                       argument local n at entry
  ('mem', root)                      initial content of the object `root`
  ('int', v, ty) ('str', s) ('unit',) ('fn', key) ('constdef', path, ty)
  ('enum', adt, variant)             field-less variant / unit constant
  ('field', e, name)  ('variant', e, V)  ('index', e, i)  ('discr', e)
  ('call', callee, args, gargs, site)
  ('bin', op, a, b)  ('un', op, a)  ('cast', e, ty)
  ('agg', adt, variant, ((name, e), ...))  ('tuple', es)  ('array', es)  ('closure', key, es)
  ('repeat', e, n)
  ('upd', base, name, value)  ('updidx', base, idx, value)
  ('after', site, callee, base)      object after being lent mutably to a call
  ('ref', root, path)                pointer to a place; root = ('l', n) | ('p', n) | ('h', e)
  ('phi', blk, ((pred, e), ...))  ('ite', cond, ((val, e), ...))   val = int | 'otherwise'
  ('loop', header, root)             value carried around a loop
  ('unk', why)
"""
import re
from .cfg import CFG

# callee key -> how the returned reference relates to argument 0
def projection_kind(callee):
    """how the reference returned by `callee` relates to its first argument, or None"""
    if callee is None:
        return None
    if callee in ('core::slice::<impl [T]>::get_unchecked', 'core::slice::<impl [T]>::get_unchecked_mut'):
        return 'index'
    if callee.endswith(' as core::ops::deref::Deref>::deref') or callee.endswith(' as core::ops::deref::DerefMut>::deref_mut'):
        if callee.startswith('<&'):
            return 'same_deref'
        return 'same'
    if '>>::index' in callee and (' as core::ops::index::Index<' in callee or ' as core::ops::index::IndexMut<' in callee):
        return 'index'
    if callee in ('alloc::vec::Vec::<T, A>::as_slice', 'alloc::vec::Vec::<T, A>::as_mut_slice',
                  'arrayvec::arrayvec::ArrayVec::<T, CAP>::as_slice', 'arrayvec::arrayvec::ArrayVec::<T, CAP>::as_mut_slice'):
        return 'same'
    return None


VAR_DEFS = {}      # ('var', function, join block, root) -> the merged value it names
_FIELD_CACHE = {}


def expand_var(e):
    """definition of a named merge value (one level), or e itself"""
    while isinstance(e, tuple) and e and e[0] == 'var' and e in VAR_DEFS:
        e = VAR_DEFS[e]
    return e


def is_unk(e):
    return isinstance(e, tuple) and e and e[0] == 'unk'


def walk(e):
    """pre-order iteration over all sub-expressions"""
    st = [e]
    while st:
        x = st.pop()
        if isinstance(x, tuple) and x:
            if isinstance(x[0], str):
                yield x
                for c in x[1:]:
                    if isinstance(c, tuple):
                        st.append(c)
            else:
                for c in x:
                    if isinstance(c, tuple):
                        st.append(c)


def contains(e, pred):
    return any(pred(x) for x in walk(e))


class Summary:
    """Result of analysing one body."""

    def __init__(self, body):
        self.body = body
        self.entry = {}       # block -> state dict at entry
        self.exit = {}        # block -> state dict at exit
        self.calls = []       # dict(blk, line, callee, decl, gargs, args, dest, site, term)
        self.stores = []      # dict(blk, si, line, target(ref), value, op)
        self.switches = {}    # blk -> discr expr
        self.asserts = []     # dict(blk, cond, expected, kind, ops)
        self.defs = {}        # ('var', join block, root) -> merged value it names (large decision trees)
        self.ret = None       # expr of _0 at the return block(s)
        self.final = {}       # root -> expr at return
        self.cfg = None

    def calls_to(self, *callees):
        return [c for c in self.calls if c['callee'] in callees]


class Analyzer:
    def __init__(self, facts, effects=None):
        self.facts = facts
        self.effects = effects  # optional: callee key -> set of (adt, field) it may write
        self._cache = {}

    # ------------------------------------------------------------------ public
    def summary(self, key):
        if key not in self._cache:
            body = self.facts.body(key)
            if body is None:
                return None
            self._cache[key] = _Pass(self, body).run()
        return self._cache[key]

    def user_projection(self, key):
        """A crate function that only hands out a reference into its first argument (a private helper such as
        `fn slot_mut(&mut self, h) -> &mut Entry`): returns its returned place ('ref', root, path) in terms of its own
        parameters, or None.  Straight-line, no stores outside locals, no loops, result a place under a parameter."""
        if not hasattr(self, '_proj'):
            self._proj = {}
            self._proj_busy = set()
        if key in self._proj:
            return self._proj[key]
        r = None
        fn = self.facts.fns.get(key)
        body = self.facts.body(key) if fn else None
        if fn and body is not None and str(fn.get('output', '')).startswith('&') and fn.get('inputs') and \
                str(fn['inputs'][0]).startswith('&') and key not in self._proj_busy and len(body.blocks) <= 12:
            self._proj_busy.add(key)
            try:
                sm = self.summary(key)
                if sm is not None and not sm.cfg.loops() and all(st.get('local') for st in sm.stores):
                    v = sm.ret
                    if isinstance(v, tuple) and v and v[0] == 'ref' and v[1][0] in ('p', 'h') and \
                            not any(isinstance(x, tuple) and x and x[0] in ('after', 'unk', 'loop', 'var', 'ite') for x in walk(v)) and \
                            not any(c_['callee'] is None or (c_['callee'] not in self.facts.bodies and not c_['callee'].startswith('core::'))
                                    for c_ in sm.calls):
                        r = v
            finally:
                self._proj_busy.discard(key)
        self._proj[key] = r
        return r

    # ------------------------------------------------------------------ constants
    def const_expr(self, k):
        ty = k.get('ty', '')
        if 'fn' in k:
            return ('fn', k['fn'])
        if 'str' in k:
            return ('str', k['str'])
        if 'int' in k:
            v = int(k['int'])
            adt = self.facts.adts.get(ty)
            if adt and adt['kind'] == 'enum':
                name = self.facts.enum_variant(ty, v)
                if name is not None:
                    return ('enum', ty, name)
            if ty == 'bool':
                return ('int', v, 'bool')
            return ('int', v, ty)
        if k.get('zst'):
            if ty == '()':
                return ('unit',)
            return ('zst', ty)
        if 'promoted' in k:
            key = '%s::{promoted#%d}' % (k['promoted_of'], k['promoted'])
            ps = self.summary(key)
            if ps is not None and ps.ret is not None and not is_unk(ps.ret):
                return ps.ret
        if 'ref_to' in k and 'bytes' in k:
            inner = k['ref_to']
            val = self.decode_bytes(bytes.fromhex(k['bytes']), inner)
            if val is not None:
                return ('constref', val)
        if 'def' in k:
            return ('constdef', k['def'], ty)
        if 'promoted' in k:
            return ('promoted', k['promoted_of'], k['promoted'])
        return ('unk', 'const:' + ty)

    def decode_bytes(self, b, ty):
        ints = {'u8': 1, 'u16': 2, 'u32': 4, 'u64': 8, 'usize': 8, 'i8': 1, 'i16': 2, 'i32': 4, 'i64': 8, 'isize': 8,
                'bool': 1, 'char': 4}
        if ty in ints and len(b) == ints[ty]:
            return ('int', int.from_bytes(b, 'little'), ty)
        adt = self.facts.adts.get(ty)
        if adt:
            if adt['kind'] == 'enum' and all(not v['fields'] for v in adt['variants']):
                name = self.facts.enum_variant(ty, int.from_bytes(b, 'little'))
                if name is not None:
                    return ('enum', ty, name)
            if adt['kind'] == 'struct':
                fs = adt['variants'][0]['fields']
                out = []
                for f in fs:
                    if 'offset' not in f:
                        return None
                    size = self.type_size(f['ty'])
                    if size is None:
                        return None
                    v = self.decode_bytes(b[f['offset']:f['offset'] + size], f['ty'])
                    if v is None:
                        return None
                    out.append((f['name'], v))
                return ('agg', ty, adt['variants'][0]['name'], tuple(out))
        if ty.startswith('[') and ';' in ty:
            inner, n = ty[1:-1].rsplit(';', 1)
            inner = inner.strip()
            size = self.type_size(inner)
            if size and len(b) % size == 0:
                elems = []
                for i in range(len(b) // size):
                    v = self.decode_bytes(b[i * size:(i + 1) * size], inner)
                    if v is None:
                        return None
                    elems.append(v)
                return ('array', tuple(elems))
        return None

    def type_size(self, ty):
        ints = {'u8': 1, 'u16': 2, 'u32': 4, 'u64': 8, 'usize': 8, 'i8': 1, 'i16': 2, 'i32': 4, 'i64': 8, 'isize': 8,
                'bool': 1, 'char': 4}
        if ty in ints:
            return ints[ty]
        adt = self.facts.adts.get(ty)
        if adt and 'size' in adt:
            return adt['size']
        return None


# ---------------------------------------------------------------------- smart constructors

def mk_field(v, name, an=None):
    while True:
        t = v[0]
        if t == 'typed':
            v = v[2]
            continue
        if t == 'bin' and v[1].endswith('WithOverflow'):
            if name == '0':
                return ('bin', v[1][:-len('WithOverflow')], v[2], v[3])
            return ('overflowed', v[1][:-len('WithOverflow')], v[2], v[3])
        if t == 'upd':
            if v[2] == name:
                return v[3]
            v = v[1]
            continue
        if t == 'agg':
            for n, e in v[3]:
                if n == name:
                    return e
            return ('unk', 'nofield:' + name)
        if t == 'variant' and v[1][0] == 'agg' and v[1][2] == v[2]:
            for n, e in v[1][3]:
                if n == name:
                    return e
        if t == 'tuple' and name.isdigit() and int(name) < len(v[1]):
            return v[1][int(name)]
        if t == 'closure' and name.isdigit() and int(name) < len(v[2]):
            return v[2][int(name)]
        if t == 'after' and an is not None and an.effects is not None:
            # the callee cannot write this field of this object: look through
            if not an.effects.may_write_field(v[2], name):
                v = v[3]
                continue
        if t == 'constref':
            v = v[1]
            continue
        if t == 'ite':
            return mk_ite(v[1], tuple((val, mk_field(x, name, an)) for val, x in v[2]))
        if t == 'never':
            return v
        if t == 'var' and v in VAR_DEFS:
            k = (v, name)
            if k not in _FIELD_CACHE:
                _FIELD_CACHE[k] = mk_field(VAR_DEFS[v], name, an)
            return _FIELD_CACHE[k]
        return ('field', v, name)


def mk_index(v, idx, an=None):
    while True:
        t = v[0]
        if t == 'typed':
            v = v[2]
            continue
        if t == 'updidx':
            if v[2] == idx:
                return v[3]
            if v[2][0] == 'int' and idx[0] == 'int':
                v = v[1]
                continue
            return ('index', v, idx)
        if t == 'array' and idx[0] == 'int' and idx[1] < len(v[1]):
            return v[1][idx[1]]
        if t == 'repeat':
            return v[1]
        if t == 'constref':
            v = v[1]
            continue
        if t == 'ite':
            return mk_ite(v[1], tuple((val, mk_index(x, idx, an)) for val, x in v[2]))
        if t == 'var' and v in VAR_DEFS:
            return mk_index(VAR_DEFS[v], idx, an)
        return ('index', v, idx)


def mk_constref(v):
    if v[0] == 'mem' and v[1][0] == 'p':
        return ('param', v[1][1])
    return ('constref', v)


def mk_variant(v, name):
    return ('variant', v, name)


def read_path(v, path, an=None):
    for el in path:
        if el[0] == 'f':
            v = mk_field(v, el[1], an)
        elif el[0] == 'v':
            v = mk_variant(v, el[1])
        elif el[0] == 'i':
            v = mk_index(v, el[1], an)
    return v


def write_path(v, path, value, an=None):
    if not path:
        return value
    el = path[0]
    if el[0] == 'f':
        inner = write_path(mk_field(v, el[1], an), path[1:], value, an)
        return ('upd', drop_upd(v, el[1]), el[1], inner)
    if el[0] == 'i':
        inner = write_path(mk_index(v, el[1], an), path[1:], value, an)
        return ('updidx', v, el[1], inner)
    if el[0] == 'v':
        inner = write_path(mk_variant(v, el[1]), path[1:], value, an)
        return ('updvar', v, el[1], inner)
    return ('unk', 'write')


# ---------------------------------------------------------------------- the pass

class _Pass:
    def __init__(self, an, body):
        self.an = an
        self.body = body
        self.cfg = CFG(body)
        self.sum = Summary(body)
        self.sum.cfg = self.cfg
        self.record = False
        self._sizes = {}

    def init_root(self, root):
        if root[0] == 'l':
            n = root[1]
            if 1 <= n <= self.body.arg_count:
                return ('param', n)
            return ('unk', 'uninit:_%d' % n)
        return ('mem', root)

    def get(self, st, root):
        if root not in st:
            st[root] = self.init_root(root)
        return st[root]

    def load(self, st, ref):
        if ref[0] != 'ref':
            return ('unk', 'load-nonref')
        return read_path(self.get(st, ref[1]), ref[2], self.an)

    def store(self, st, ref, value):
        st[ref[1]] = write_path(self.get(st, ref[1]), ref[2], value, self.an)

    def as_ptr(self, v):
        """pointer value -> ('ref', root, path)"""
        if v[0] == 'ref':
            return v
        if v[0] == 'param':
            return ('ref', ('p', v[1]), ())
        if v[0] == 'constref':
            return ('ref', ('h', v), ())
        return ('ref', ('h', v), ())

    def place_ref(self, st, p):
        ref = ('ref', ('l', p['l']), ())
        for e in p['p']:
            if e == '*':
                v = self.load(st, ref)
                if v[0] == 'constref':
                    # reading through a pointer to a promoted constant
                    ref = ('ref', ('k', v[1]), ())
                    st.setdefault(('k', v[1]), v[1])
                else:
                    ref = self.as_ptr(v)
            elif isinstance(e, dict):
                if 'f' in e:
                    ref = ('ref', ref[1], ref[2] + (('f', e.get('n', str(e['f']))),))
                elif 'dc' in e:
                    ref = ('ref', ref[1], ref[2] + (('v', e['dc']),))
                elif 'i' in e:
                    iv = self.load(st, ('ref', ('l', e['i']), ()))
                    ref = ('ref', ref[1], ref[2] + (('i', iv),))
                elif 'ci' in e:
                    ref = ('ref', ref[1], ref[2] + (('i', ('int', e['ci'], 'usize')),))
                else:
                    ref = ('ref', ('h', ('unk', 'proj')), ())
            else:
                pass  # opaque casts etc.
        return ref

    def operand(self, st, o):
        if 'c' in o:
            return self.load(st, self.place_ref(st, o['c']))
        if 'm' in o:
            return self.load(st, self.place_ref(st, o['m']))
        if 'k' in o:
            return self.an.const_expr(o['k'])
        return ('unk', 'operand')

    def operand_ty(self, o):
        p = o.get('c') or o.get('m')
        if p is not None and not p['p']:
            return self.body.locals[p['l']]['ty']
        if 'k' in o:
            return o['k'].get('ty', '')
        return ''

    def rvalue(self, st, rv):
        k = rv['rv']
        if k == 'use':
            return self.operand(st, rv['op'])
        if k in ('ref', 'rawptr'):
            r = self.place_ref(st, rv['pl'])
            if k == 'ref' and rv['bk'] in ('shared', 'fake'):
                # a shared borrow denotes the (frozen) value it points to
                return mk_constref(self.load(st, r))
            return r
        if k == 'bin':
            return ('bin', rv['bop'], self.operand(st, rv['a']), self.operand(st, rv['b']))
        if k == 'un':
            return ('un', rv['uop'], self.operand(st, rv['op']))
        if k == 'cast':
            v = self.operand(st, rv['op'])
            if rv['kind'].startswith('PointerCoercion') or rv['kind'] in ('PtrToPtr', 'Subtype'):
                return v
            return ('cast', v, rv['ty'])
        if k == 'discr':
            v = self.load(st, self.place_ref(st, rv['pl']))
            if v[0] == 'agg' and v[1] == rv.get('adt'):
                d = self.an.facts.enum_discr(v[1], v[2])
                if d is not None:
                    return ('int', d, 'isize')
            if v[0] == 'enum':
                d = self.an.facts.enum_discr(v[1], v[2])
                if d is not None:
                    return ('int', d, 'isize')
            return ('discr', v)
        if k == 'agg':
            ops = tuple(self.operand(st, o) for o in rv['ops'])
            if rv['kind'] == 'adt':
                if not ops:
                    adt = self.an.facts.adts.get(rv['adt'])
                    if adt and adt['kind'] == 'enum' and all(not v['fields'] for v in adt['variants']):
                        return ('enum', rv['adt'], rv['variant'])
                return ('agg', rv['adt'], rv['variant'], tuple(zip(rv['fields'], ops)))
            if rv['kind'] == 'tuple':
                if not ops:
                    return ('unit',)
                return ('tuple', ops)
            if rv['kind'] == 'array':
                return ('array', ops)
            if rv['kind'] == 'closure':
                return ('closure', rv['closure'], ops)
            return ('unk', 'agg')
        if k == 'repeat':
            return ('repeat', self.operand(st, rv['op']), rv['n'])
        return ('unk', 'rv:' + k)

    # ------------------------------------------------------------------
    def subst_projection(self, st, ref, args, term):
        """the place returned by a user projection function, expressed in the caller's terms"""
        ptrs = {}
        vals = {}
        for i, (a, o) in enumerate(zip(args, term['args'])):
            n = i + 1
            if a[0] in ('ref', 'param') and self.operand_ty(o).startswith('&'):
                ptrs[n] = self.as_ptr(a)
                vals[n] = a
            elif a[0] == 'constref':
                vals[n] = a
            else:
                vals[n] = a
        ok = [True]

        def sv(e):
            if not isinstance(e, tuple) or not e:
                return e
            if e[0] == 'param':
                if e[1] in vals:
                    return vals[e[1]]
                ok[0] = False
                return e
            if e[0] == 'mem' and isinstance(e[1], tuple) and e[1] and e[1][0] == 'p':
                n = e[1][1]
                if n in ptrs:
                    return self.load(st, ptrs[n])
                if n in vals and vals[n][0] == 'constref':
                    return vals[n][1]
                ok[0] = False
                return e
            return tuple(sv(x) if isinstance(x, tuple) else x for x in e)
        root, path = ref[1], ref[2]
        npath = tuple((el[0], sv(el[1])) if el[0] == 'i' else el for el in path)
        if root[0] == 'p':
            if root[1] not in ptrs:
                return None
            base = ptrs[root[1]]
            out = ('ref', base[1], base[2] + npath)
        elif root[0] == 'h':
            out = ('ref', ('h', sv(root[1])), npath)
        else:
            return None
        return out if ok[0] else None

    # ------------------------------------------------------------------
    def transfer(self, bi, st):
        b = self.body.blocks[bi]
        for si, s in enumerate(b['stmts']):
            if s['k'] == 'assign':
                val = self.rvalue(st, s['rv'])
                ref = self.place_ref(st, s['pl'])
                self.store(st, ref, val)
                if self.record and (ref[1][0] != 'l' or ref[2]):
                    self.sum.stores.append(dict(blk=bi, si=si, line=s['line'], target=ref, value=val, rv=s['rv']))
                elif self.record:
                    self.sum.stores.append(dict(blk=bi, si=si, line=s['line'], target=ref, value=val, rv=s['rv'],
                                                local=True))
            elif s['k'] == 'setdiscr':
                pass
        t = b['term']
        k = t['k']
        if k == 'call':
            args = tuple(self.operand(st, a) for a in t['args'])
            callee = t.get('callee')
            site = bi
            if callee is None:
                fv = self.operand(st, t['func'])
                callee = 'indirect'
                res = ('call', 'indirect', (fv,) + args, (), site)
            else:
                res = None
            proj = projection_kind(callee)
            if proj and args and args[0][0] == 'constref':
                v = args[0][1]
                if proj == 'index' and len(args) > 1 and self.operand_ty(t['args'][1]) == 'usize':
                    res = mk_constref(mk_index(v, args[1], self.an))
                elif proj == 'same':
                    res = args[0]
                elif proj == 'same_deref':
                    res = v
                else:
                    proj = None
            elif proj and args and args[0][0] in ('ref', 'param'):
                base = self.as_ptr(args[0])
                shared = not self.operand_ty(t['args'][0]).startswith('&mut')
                if proj == 'index' and len(args) > 1 and self.operand_ty(t['args'][1]) == 'usize':
                    res = ('ref', base[1], base[2] + (('i', args[1]),))
                elif proj == 'same':
                    res = base
                elif proj == 'same_deref':
                    res = self.as_ptr(self.load(st, base))
                else:
                    proj = None
                if proj and shared:
                    res = mk_constref(self.load(st, res))
            else:
                proj = None
            if not proj and callee and args and args[0][0] in ('ref', 'param') and callee in self.an.facts.fns:
                up = self.an.user_projection(callee)
                if up is not None:
                    sub = self.subst_projection(st, up, args, t)
                    if sub is not None:
                        res = sub
                        proj = 'user'
                        if not re.match(r"^&('\w+ )?mut ", str(self.an.facts.fns[callee].get('output', ''))):
                            res = mk_constref(self.load(st, res))
            if callee == 'core::option::Option::<T>::take' and args and args[0][0] in ('ref', 'param') and not proj:
                # take(): yields the old value and leaves None behind
                r0 = self.as_ptr(args[0])
                res = self.load(st, r0)
                self.store(st, r0, ('agg', 'core::option::Option', 'None', ()))
                proj = 'take'
            if res is None:
                res = ('call', callee, args, tuple(t.get('gargs', [])), site)
            argvals = tuple(self.load(st, a) if a[0] == 'ref' else (a[1] if a[0] == 'constref' else a) for a in args)
            if not proj:
                # objects lent mutably are changed by the call
                for ai, (a, o) in enumerate(zip(args, t['args'])):
                    ty = self.operand_ty(o)
                    if ty.startswith('&mut') and a[0] in ('ref', 'param'):
                        r = self.as_ptr(a)
                        old = self.load(st, r)
                        self.store(st, r, ('after', site, callee, old, argvals, ai + 1))
            dest_ref = self.place_ref(st, t['dest'])
            if self.record:
                self.sum.calls.append(dict(blk=bi, line=t['line'], callee=callee, decl=t.get('decl'), argvals=argvals, dest=dest_ref,
                                           gargs=tuple(t.get('gargs', [])), args=args, site=site, term=t,
                                           result=res, exp=bool(t.get('exp'))))
            self.store(st, dest_ref, res)
        elif k == 'switch':
            if self.record:
                self.sum.switches[bi] = self.operand(st, t['discr'])
        elif k == 'assert':
            if self.record:
                self.sum.asserts.append(dict(blk=bi, line=t['line'], cond=self.operand(st, t['cond']),
                                             expected=t['expected'], kind=t['akind'],
                                             ops=tuple(self.operand(st, o) for o in t['aops'])))
        elif k == 'drop':
            pass
        return st

    # ------------------------------------------------------------------ merging
    def merge(self, bi, pred_states, loop_roots):
        """pred_states: list of (pred, state); loop_roots: root -> None (whole) | set of fields"""
        if len(pred_states) == 1 and not loop_roots:
            return dict(pred_states[0][1])
        roots = set()
        for _, s in pred_states:
            roots |= set(s.keys())
        out = {}
        for r in roots:
            if r[0] == 'k':
                out[r] = r[1]
                continue
            if r in loop_roots and loop_roots[r] is None:
                out[r] = ('loop', bi, r)
                continue
            vals = []
            for p, s in pred_states:
                vals.append((p, s[r] if r in s else self.init_root(r)))
            first = vals[0][1]
            if all(v == first for _, v in vals):
                v = first
            else:
                v = self.merge_value(bi, vals, root=r)
            if r in loop_roots:
                for f in sorted(loop_roots[r]):
                    v = ('upd', v, f, ('loop', bi, (r, f)))
            out[r] = v
        for r in loop_roots:
            if r not in out:
                if loop_roots[r] is None:
                    out[r] = ('loop', bi, r)
                else:
                    v = self.init_root(r)
                    for f in sorted(loop_roots[r]):
                        v = ('upd', v, f, ('loop', bi, (r, f)))
                    out[r] = v
        return out

    SIZE_LIMIT = 1500

    def tree_size(self, e):
        """number of nodes of e as a tree (saturating), computed on the shared object graph"""
        memo = self._sizes
        cap = 10 * self.SIZE_LIMIT

        def rec(x):
            if not isinstance(x, tuple):
                return 1
            k = id(x)
            if k in memo:
                return memo[k][0]
            n = 1
            for c in x:
                n += rec(c)
                if n > cap:
                    n = cap
                    break
            memo[k] = (n, x)    # keep x alive so that the id stays valid
            return n
        return rec(e)

    def merge_value(self, bi, vals, root=None):
        v = self._merge_value(bi, vals)
        if root is not None and v[0] in ('ite', 'phi') and self.tree_size(v) > self.SIZE_LIMIT:
            # name the merged value instead of embedding an ever growing decision tree
            var = ('var', self.body.key, bi, root)
            self.sum.defs[var] = v
            VAR_DEFS[var] = v
            _FIELD_CACHE.clear()
            return var
        return v

    def _merge_value(self, bi, vals):
        # objects that are field updates of one common base are merged field by field
        peeled = [(p, peel_upd(v)) for p, v in vals]
        base = peeled[0][1][0]
        if any(fs for _, (_, fs) in peeled) and all(b == base for _, (b, _) in peeled):
            names = set()
            for _, (_, fs) in peeled:
                names |= set(fs)
            v = base
            for f in sorted(names):
                fvals = [(p, mk_field(val, f, self.an)) for p, val in vals]
                f0 = fvals[0][1]
                if all(x == f0 for _, x in fvals):
                    fv = f0
                else:
                    fv = self._merge_value(bi, fvals)
                v = ('upd', v, f, fv)
            return v
        return self.structure_phi(bi, vals)

    def structure_phi(self, join, vals):
        """turn a phi at `join` into an ite decision tree when the region from the immediate
        dominator is acyclic and decided by switches"""
        phi = ('phi', join, tuple(vals))
        d = self.cfg.idom(join)
        if d is None:
            return phi
        by_pred = dict(vals)
        budget = [20000]
        memo = {}

        def tree(frm, to, depth):
            # value selected when control goes along edge frm -> to
            if to == join:
                return by_pred.get(frm)
            if to in memo:
                return memo[to]
            r = tree1(frm, to, depth)
            memo[to] = r
            return r

        reach_join = {join}
        work = [join]
        while work:
            n = work.pop()
            for p_ in self.cfg.pred[n]:
                if p_ in self.cfg.nodes and p_ not in reach_join:
                    reach_join.add(p_)
                    work.append(p_)

        def tree1(frm, to, depth):
            budget[0] -= 1
            if budget[0] < 0 or depth > 200:
                return None
            if to not in reach_join:
                return ('never',)
            if not self.cfg.dominates(d, to) or to == d:
                return None
            t = self.body.blocks[to]['term']
            succs = self.body.successors(to)
            if not succs:
                return ('never',)
            if t['k'] == 'switch':
                cond = self.sum.switches.get(to)
                if cond is None:
                    cond = self._switch_cond.get(to)
                if cond is None:
                    return None
                cases = []
                for v, tb in t['targets']:
                    e = tree(to, tb, depth + 1)
                    if e is None:
                        return None
                    cases.append((v, e))
                e = tree(to, t['otherwise'], depth + 1)
                if e is None:
                    return None
                cases.append(('otherwise', e))
                return mk_ite(cond, tuple(cases))
            return tree(to, succs[0], depth + 1)

        t = self.body.blocks[d]['term']
        if t['k'] != 'switch':
            # single successor chain from d down to the deciding switch
            succs = self.body.successors(d)
            if len(succs) != 1:
                return phi
            e = tree(d, succs[0], 0)
            return e if e is not None else phi
        cond = self._switch_cond.get(d)
        if cond is None:
            return phi
        cases = []
        for v, tb in t['targets']:
            e = tree(d, tb, 0)
            if e is None:
                return phi
            cases.append((v, e))
        e = tree(d, t['otherwise'], 0)
        if e is None:
            return phi
        cases.append(('otherwise', e))
        return mk_ite(cond, tuple(cases))

    # ------------------------------------------------------------------
    def run(self):
        cfg = self.cfg
        order = cfg.order
        loops = cfg.loops()
        back = set(cfg.back_edges())
        loop_roots = {h: {} for h in loops}
        self._switch_cond = {}
        for iteration in range(10):
            entry = {}
            exit_ = {}
            self.record = False
            for bi in order:
                preds = [p for p in cfg.pred[bi] if p in cfg.nodes and (p, bi) not in back and p in exit_]
                if not preds:
                    st = {}
                    if loop_roots.get(bi):
                        st = self.merge(bi, [(-1, {})], loop_roots[bi])
                else:
                    st = self.merge(bi, [(p, exit_[p]) for p in preds], loop_roots.get(bi, {}))
                entry[bi] = dict(st)
                t = self.body.blocks[bi]['term']
                st2 = self.transfer(bi, st)
                if t['k'] == 'switch':
                    self._switch_cond[bi] = self.operand(st2, t['discr'])
                exit_[bi] = st2
            # find what changes around loops
            changed = False
            for (a, h) in back:
                if a not in exit_:
                    continue
                he = entry[h]
                ae = exit_[a]
                for r in set(he.keys()) | set(ae.keys()):
                    if r[0] == 'k':
                        continue
                    hv = he.get(r, self.init_root(r))
                    av = ae.get(r, self.init_root(r))
                    if hv == av:
                        continue
                    cur = loop_roots[h].get(r, set())
                    if cur is None:
                        continue
                    hb, hf = peel_upd(hv)
                    ab, af = peel_upd(av)
                    if hb == ab and hb[0] != 'loop' and (hf or af):
                        diff = {f for f in set(hf) | set(af) if mk_field(hv, f, self.an) != mk_field(av, f, self.an)}
                        if not diff <= cur:
                            loop_roots[h][r] = cur | diff
                            changed = True
                    else:
                        if r in loop_roots[h] and loop_roots[h][r] is None:
                            continue
                        loop_roots[h][r] = None
                        changed = True
            if not changed:
                break
        # final recording pass
        self.record = True
        self.sum.calls = []
        self.sum.stores = []
        entry = {}
        exit_ = {}
        for bi in order:
            preds = [p for p in cfg.pred[bi] if p in cfg.nodes and (p, bi) not in back and p in exit_]
            if not preds:
                st = {}
                if loop_roots.get(bi):
                    st = self.merge(bi, [(-1, {})], loop_roots[bi])
            else:
                st = self.merge(bi, [(p, exit_[p]) for p in preds], loop_roots.get(bi, {}))
            entry[bi] = dict(st)
            st2 = self.transfer(bi, st)
            exit_[bi] = st2
        self.sum.entry = entry
        self.sum.exit = exit_
        self.sum.loop_roots = loop_roots
        rets = self.body.return_blocks()
        if rets:
            if len(rets) == 1:
                fin = exit_[rets[0]]
            else:
                fin = self.merge(-2, [(r, exit_[r]) for r in rets], {})
            fin = {r: expand_var(v) for r, v in fin.items()}
            self.sum.final = fin
            self.sum.ret = fin.get(('l', 0), ('unk', 'noret'))
        return self.sum


def drop_upd(v, name):
    """remove an older update of the same field from an update chain"""
    if v[0] != 'upd':
        return v
    if v[2] == name:
        return v[1]
    inner = drop_upd(v[1], name)
    if inner is v[1]:
        return v
    return ('upd', inner, v[2], v[3])


def peel_upd(v):
    """(base, {field: value}) after removing top-level field updates"""
    fs = {}
    while v[0] == 'upd':
        fs.setdefault(v[2], v[3])
        v = v[1]
    return v, fs


def mk_ite(cond, cases):
    # collapse when all reachable branches agree (an unreachable arm -- `never` -- agrees with anything)
    live = [e for _, e in cases if e != ('never',)]
    if not live:
        return ('never',)
    first = live[0]
    if all(e == first for e in live):
        return first
    return ('ite', cond, cases)


# ---------------------------------------------------------------------- utilities for rules

def paths_of(e, limit=4096):
    """enumerate (conditions, leaf) of an ite tree: conditions = ((cond, val), ...)"""
    out = []

    def rec(x, conds):
        if len(out) > limit:
            return
        if isinstance(x, tuple) and x and x[0] == 'ite':
            # a condition that is a boolean temp computed by a match (`matches!(c, 'a' | 'b')`, possibly negated):
            # report the scrutinee's cases instead of the temp
            neg, y = False, x[1]
            while isinstance(y, tuple) and y and y[0] == 'un' and y[1] == 'Not':
                neg, y = not neg, y[2]
            vals = [v for v, _ in x[2]]
            if isinstance(y, tuple) and y and y[0] == 'ite' and set(vals) <= {0, 1, 'otherwise'} and \
                    all(isinstance(l, tuple) and l and l[0] == 'int' and l[2] == 'bool' for _, l in y[2]):
                inner_all = tuple(c for c, _ in y[2])
                for iv, leaf in y[2]:
                    tv = bool(leaf[1]) != neg
                    # which outer branch does this truth value take
                    tgt = None
                    for v, sub in x[2]:
                        if (v == 0 and not tv) or (v == 1 and tv):
                            tgt = sub
                    if tgt is None:
                        for v, sub in x[2]:
                            if v == 'otherwise':
                                tgt = sub
                    if tgt is not None:
                        rec(tgt, conds + ((y[1], iv, inner_all),))
                return
            for v, sub in x[2]:
                rec(sub, conds + ((x[1], v, tuple(c for c, _ in x[2])),))
        else:
            out.append((conds, x))

    rec(e, ())
    return out


def norm(e, keep_typed=False):
    """comparison form: call-site ids, shared-reference wrappers, type annotations and `after` sites removed"""
    if not isinstance(e, tuple) or not e:
        return e
    t = e[0]
    if keep_typed:
        return _norm_typed(e)
    if t == 'typed':
        return norm(e[2])
    if t == 'constref':
        return norm(e[1])
    if t == 'mem' and e[1][0] == 'h' and e[1][1][0] == 'str':
        return e[1][1]
    if t == 'call':
        return ('call', e[1], tuple(norm(a) for a in e[2]), e[3])
    if t == 'after':
        return ('after', None, e[2], norm(e[3]), tuple(norm(a) for a in e[4]), e[5])
    return tuple(norm(x) for x in e)


def _norm_typed(e):
    if not isinstance(e, tuple) or not e:
        return e
    t = e[0]
    if t == 'constref':
        return _norm_typed(e[1])
    if t == 'mem' and e[1][0] == 'h' and e[1][1][0] == 'str':
        return e[1][1]
    if t == 'call':
        return ('call', e[1], tuple(_norm_typed(a) for a in e[2]), e[3])
    if t == 'after':
        return ('after', None, e[2], _norm_typed(e[3]), tuple(_norm_typed(a) for a in e[4]), e[5])
    return tuple(_norm_typed(x) for x in e)


def strip_sites(e):
    """drop call-site ids so that two evaluations of a pure expression compare equal"""
    if not isinstance(e, tuple):
        return e
    if e and e[0] == 'call':
        return ('call', e[1], tuple(strip_sites(a) for a in e[2]), e[3])
    if e and e[0] == 'after':
        return ('after', None, e[2], strip_sites(e[3]), strip_sites(e[4]), e[5])
    return tuple(strip_sites(x) for x in e)


def show(e, depth=0):
    """compact human-readable rendering"""
    if not isinstance(e, tuple) or not e:
        return repr(e)
    t = e[0]
    if t == 'param':
        return 'arg%d' % e[1]
    if t == 'mem':
        r = e[1]
        return '*arg%d' % r[1] if r[0] == 'p' else '*(%s)' % show(r[1])
    if t == 'int':
        return '%d%s' % (e[1], '' if e[2] in ('usize', 'u64', 'isize') else ':' + e[2])
    if t == 'enum':
        return '%s::%s' % (e[1].split('::')[-1], e[2])
    if t == 'str':
        return repr(e[1])
    if t == 'field':
        return '%s.%s' % (show(e[1]), e[2])
    if t == 'variant':
        return '(%s as %s)' % (show(e[1]), e[2])
    if t == 'index':
        return '%s[%s]' % (show(e[1]), show(e[2]))
    if t == 'discr':
        return 'discr(%s)' % show(e[1])
    if t == 'call':
        return '%s(%s)' % (e[1], ', '.join(show(a) for a in e[2]))
    if t == 'bin':
        return '%s(%s, %s)' % (e[1], show(e[2]), show(e[3]))
    if t == 'un':
        return '%s(%s)' % (e[1], show(e[2]))
    if t == 'cast':
        return '(%s as %s)' % (show(e[1]), e[2])
    if t == 'agg':
        return '%s::%s{%s}' % (e[1].split('::')[-1], e[2], ', '.join('%s: %s' % (n, show(v)) for n, v in e[3]))
    if t in ('tuple', 'array'):
        return '%s(%s)' % (t, ', '.join(show(x) for x in e[1]))
    if t == 'closure':
        return 'closure %s[%s]' % (e[1], ', '.join(show(x) for x in e[2]))
    if t == 'upd':
        return '%s{.%s = %s}' % (show(e[1]), e[2], show(e[3]))
    if t == 'updidx':
        return '%s{[%s] = %s}' % (show(e[1]), show(e[2]), show(e[3]))
    if t == 'after':
        return 'after<%s@bb%s>(%s)' % (e[2], e[1], show(e[3]))
    if t == 'ref':
        r = e[1]
        base = ('_%d' % r[1]) if r[0] == 'l' else ('*arg%d' % r[1]) if r[0] == 'p' else '*(%s)' % show(r[1])
        for el in e[2]:
            if el[0] == 'f':
                base += '.' + el[1]
            elif el[0] == 'v':
                base = '(%s as %s)' % (base, el[1])
            else:
                base += '[%s]' % show(el[1])
        return '&' + base
    if t == 'ite':
        return 'ite(%s; %s)' % (show(e[1]), ', '.join('%s=>%s' % (v, show(x)) for v, x in e[2]))
    if t == 'phi':
        return 'phi@bb%d(%s)' % (e[1], ', '.join('bb%s:%s' % (p, show(x)) for p, x in e[2]))
    if t == 'loop':
        return 'loop@bb%d(%s)' % (e[1], e[2])
    if t == 'var':
        r = e[3]
        return 'var@bb%s(%s)' % (e[2], ('_%d' % r[1]) if r[0] == 'l' else str(r))
    if t == 'typed':
        return show(e[2])
    if t == 'constref':
        return '&const(%s)' % show(e[1])
    if t == 'constdef':
        return e[1]
    if t == 'unit':
        return '()'
    if t == 'fn':
        return 'fn:%s' % e[1]
    return '%s(%s)' % (t, ', '.join(show(x) if isinstance(x, tuple) else str(x) for x in e[1:]))
