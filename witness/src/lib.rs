//! E4 — compile-fail witnesses for the type-level clauses (thorough tier).
//!
//! Every clause is a pair: a `compile_fail,E0xxx` example written as an external user of `chess`
//! and a `no_run` twin that differs only in the offending line.  Nothing is executed: failing
//! examples do not compile and twins are only compiled.  `sa/witness.py` maps the item names
//! (`W_<property>_<n>`) to properties and rules.
#![allow(non_camel_case_types)]

/// C02.R3 / C03 / C08.R1: the position cannot be edited field-wise from outside the crate.
/// ```compile_fail,E0616
/// use chess::{Board, Color};
/// let mut b = Board::default();
/// b.side_to_move = Color::Black;
/// let _ = b;
/// ```
pub struct W_C02_1;
/// twin of W_C02_1
/// ```no_run
/// use chess::{Board, Color};
/// let mut b = Board::default();
/// let _ = b.side_to_move() == Color::Black;
/// let _ = b;
/// ```
pub struct T_C02_1;

/// C08.R1: the incremental hash has no writer outside the crate.
/// ```compile_fail,E0616
/// use chess::Board;
/// let mut b = Board::default();
/// b.hash = 0;
/// let _ = b;
/// ```
pub struct W_C08_1;
/// twin of W_C08_1
/// ```no_run
/// use chess::Board;
/// let mut b = Board::default();
/// let _ = b.get_hash() == 0;
/// let _ = b;
/// ```
pub struct T_C08_1;

/// C03.R2: the check / pin caches have no writer outside the crate.
/// ```compile_fail,E0616
/// use chess::{Board, EMPTY};
/// let mut b = Board::default();
/// b.checkers = EMPTY;
/// let _ = b;
/// ```
pub struct W_C03_1;
/// twin of W_C03_1
/// ```no_run
/// use chess::{Board, EMPTY};
/// let mut b = Board::default();
/// let _ = *b.checkers() == EMPTY;
/// let _ = b;
/// ```
pub struct T_C03_1;

/// C03.R2 (pinned)
/// ```compile_fail,E0616
/// use chess::{Board, EMPTY};
/// let mut b = Board::default();
/// b.pinned = EMPTY;
/// let _ = b;
/// ```
pub struct W_C03_2;
/// twin of W_C03_2
/// ```no_run
/// use chess::{Board, EMPTY};
/// let mut b = Board::default();
/// let _ = *b.pinned() == EMPTY;
/// let _ = b;
/// ```
pub struct T_C03_2;

/// C05.R2 / C07.R3: a Board cannot be built by a struct literal (or functional update) outside the
/// crate, so every Board passed the sanity gate of a constructor.
/// ```compile_fail,E0451
/// use chess::{Board, Color};
/// let b = Board { side_to_move: Color::Black, ..Board::default() };
/// let _ = b;
/// ```
pub struct W_C05_1;
/// twin of W_C05_1
/// ```no_run
/// use chess::{Board, Color};
/// let b = Board::default();
/// let _ = b;
/// ```
pub struct T_C05_1;

/// C07.R4: a Square cannot be built from a raw byte without the masking constructor, so the
/// `< 64` invariant behind every unchecked table index cannot be broken from outside.
/// ```compile_fail,E0423
/// use chess::Square;
/// let s = Square(64);
/// let _ = s;
/// ```
pub struct W_C07_1;
/// twin of W_C07_1
/// ```no_run
/// use chess::Square;
/// let s = Square::new(64);
/// let _ = s;
/// ```
pub struct T_C07_1;

/// C10.R3: the action log cannot be pushed to from outside the crate (private field).
/// ```compile_fail,E0616
/// use chess::{Game, Action, Color};
/// let mut g = Game::new();
/// g.moves.push(Action::Resign(Color::White));
/// let _ = g;
/// ```
pub struct W_C10_1;
/// twin of W_C10_1
/// ```no_run
/// use chess::{Game, Action, Color};
/// let mut g = Game::new();
/// g.resign(Color::White);
/// let _ = g;
/// ```
pub struct T_C10_1;

/// C10.R3: `actions()` hands out a shared reference only.
/// ```compile_fail,E0596
/// use chess::{Game, Action, Color};
/// let mut g = Game::new();
/// g.actions().push(Action::Resign(Color::White));
/// let _ = g;
/// ```
pub struct W_C10_2;
/// twin of W_C10_2
/// ```no_run
/// use chess::{Game, Action, Color};
/// let mut g = Game::new();
/// g.actions().len();
/// let _ = g;
/// ```
pub struct T_C10_2;

/// C10.R3: the start position of a game cannot be replaced.
/// ```compile_fail,E0616
/// use chess::{Game, Board};
/// let mut g = Game::new();
/// g.start_pos = Board::default();
/// let _ = g;
/// ```
pub struct W_C10_3;
/// twin of W_C10_3
/// ```no_run
/// use chess::{Game, Board};
/// let mut g = Game::new();
/// let _ = g.current_position() == Board::default();
/// let _ = g;
/// ```
pub struct T_C10_3;

/// C14: the iterator's cursor is private; only next / set_iterator_mask / remove_* move it.
/// ```compile_fail,E0616
/// use chess::{Board, MoveGen};
/// let mut it = MoveGen::new_legal(&Board::default());
/// it.index = 0;
/// let _ = it;
/// ```
pub struct W_C14_1;
/// twin of W_C14_1
/// ```no_run
/// use chess::{Board, MoveGen};
/// let mut it = MoveGen::new_legal(&Board::default());
/// it.len();
/// let _ = it;
/// ```
pub struct T_C14_1;

/// C19.R1/R2: mask and table are private, so `(hash as usize) & mask` stays inside the table.
/// ```compile_fail,E0616
/// use chess::CacheTable;
/// let mut t: CacheTable<u32> = CacheTable::new(16, 0);
/// t.mask = 1023;
/// let _ = t;
/// ```
pub struct W_C19_1;
/// twin of W_C19_1
/// ```no_run
/// use chess::CacheTable;
/// let mut t: CacheTable<u32> = CacheTable::new(16, 0);
/// t.add(1023, 1);
/// let _ = t;
/// ```
pub struct T_C19_1;

/// C19.R2 (table)
/// ```compile_fail,E0616
/// use chess::CacheTable;
/// let mut t: CacheTable<u32> = CacheTable::new(16, 0);
/// let _ = t.table.len();
/// let _ = t;
/// ```
pub struct W_C19_2;
/// twin of W_C19_2
/// ```no_run
/// use chess::CacheTable;
/// let mut t: CacheTable<u32> = CacheTable::new(16, 0);
/// let _ = t.get(3).is_some();
/// let _ = t;
/// ```
pub struct T_C19_2;

/// C13 / C01.R1: a move's components are private (structural equality is over exactly these).
/// ```compile_fail,E0616
/// use chess::{ChessMove, Square};
/// let mut m = ChessMove::new(Square::E2, Square::E4, None);
/// m.dest = Square::E3;
/// let _ = m;
/// ```
pub struct W_C13_1;
/// twin of W_C13_1
/// ```no_run
/// use chess::{ChessMove, Square};
/// let mut m = ChessMove::new(Square::E2, Square::E4, None);
/// let _ = m.get_dest() == Square::E3;
/// let _ = m;
/// ```
pub struct T_C13_1;

/// C18.R2 / C02.R3: null_move and make_move_new take the position by shared reference: the source
/// is still usable (and unchanged, Board has no interior mutability) afterwards.  Twin-only.
/// ```no_run
/// use chess::{Board, ChessMove, Square};
/// let b = Board::default();
/// let n = b.null_move();
/// let c = b.make_move_new(ChessMove::new(Square::E2, Square::E4, None));
/// let _ = (b, n, c);
/// ```
pub struct T_C18_1;
