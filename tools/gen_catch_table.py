#!/usr/bin/env python3
"""Rewrites the region between the CATCH-TABLE markers of DESIGN.md from seeded/*/meta.json and
selftest/last_run.json (which checks catch which changes)."""
import json, os, re
HERE = os.path.dirname(os.path.dirname(os.path.abspath(__file__)))
WHAT = {
 'S-C01-8': 'update_pin_info returns early when no enemy slider shares a line with the king, before the knight and pawn checker look-ups: set-up positions in knight/pawn check generate illegal moves',
 'S-C02-8': 'castle-rights updates split by mover: for a king move only `remove_my_castle_rights(Both)`; a king capturing a home-square rook leaves the opponent\'s right',
 'S-C03-8': 'from-scratch pin test counts only the side to move\'s men between slider and king: false pins / missing bits against the incremental copies',
 'S-C06-8': 'update_pin_info records `between & mine` as pinned; the copies in make_move* still record a lone blocker of either colour: parsed board != played board',
 'S-C07-8': 'BoardBuilder stores the en-passant SQUARE resolved at set time; a later side_to_move() leaves it on the wrong rank',
 'S-C08-8': '"like takes like" capture fast path moves the square between the colour boards and xors only the new owner\'s key',
 'S-C10-8': 'status() fast path: Ongoing when any pawn has a free square ahead and not in check (ignores pins): stalemates with a pinned pawn are missed',
 'S-C11-8': 'early `return false` when the repetition list has fewer than 9 entries, placed before the fifty-move test',
 'S-C12-8': '" e.p." settled once before the loop: rejected unless board.en_passant() == Some(dest) (the pawn\'s square, not the landing square)',
 'S-C14-8': 'en-passant source loop skips pinned pawns: a capture along the pin diagonal is never yielded',
 'S-C04-7': 'direct pawn-check lookup hoisted to the top of the pawn branch, the copy in the double-push branch left behind: XOR toggles twice, a double-push check is never recorded',
 'S-C05-7': 'is_sane "hardening": with an en-passant square only the double-stepped pawn may give check (a discovered slider check after a double push is rejected)',
 'S-C09-7': 'Zobrist::piece through a flat pointer with row = colour * NUM_COLORS + piece (stride 2 instead of 6): black pawn = white bishop etc.',
 'S-C13-7': 'Square::from_str computes `f as usize - \'a\' as usize` before validating: characters below the range underflow (panic with overflow checks)',
 'S-C16-7': 'pawn push table: "unmoved = cannot step back twice": back-rank pawns get a double step',
 'S-C17-7': 'status() fast path flips Black\'s pawns with reverse_colors but tests them against the unflipped empty set: Black stalemates with a pawn read Ongoing',
 'S-C18-7': 'update_pin_info masks the candidate sliders with !king_moves(ksq): a slider checking from an adjacent square is lost',
 'S-C19-7': 'add() writes only when the stored hash differs: a re-store under the same hash keeps the old value',
 'S-C20-7': 'branch-free next(): pops unconditionally and decides Some/None afterwards; EMPTY.to_square() is a1, so an exhausted board becomes {a1}',
 'S-C01-7': 'enemy-king adjacency hoisted out of legal_king_move into a mask in KingType::legals: the castling path (which calls legal_king_move directly) no longer sees the enemy king',
 'S-C02-7': 'en-passant capture arm additionally requires `self.checkers == EMPTY`: capturing a checking double-pushed pawn leaves it on the board',
 'S-C03-7': 'closing slider scan wrapped in `if can_be_pinned` (opponent has more than a bare king): slider checks on a lone king are lost',
 'S-C06-7': 'is_sane "hardening": the square the pawn jumped over must be empty, computed with ubackward from the pawn (tests the square in FRONT): valid FENs rejected',
 'S-C07-7': 'same wrong-direction emptiness test added to the en-passant conjunct of is_sane: a valid position is refused',
 'S-C08-7': 'pawn arms merged; en passant as `xor(Pawn, from_square(ep) & behind, ..)`: an EMPTY set goes through the single-square toggle and flips the a1 key',
 'S-C10-7': 'Board::legal cheap rejects: in check a non-king move must land on the checker or between: the en-passant capture of a checking pawn is refused',
 'S-C11-7': 'clears replaced by a window index set to `len()` AFTER pushing the new position: that position is never counted',
 'S-C12-7': 'ambiguity decided from attack geometry before legality (`sources.popcnt() != 1` => Err): a pinned twin makes minimal SAN "ambiguous"',
 'S-C14-7': 'remove_mask / remove_move strip only entries from `index` on: entries exhausted under the current mask keep removed destinations',
 'S-C04-6': 'legal_ep_move rook test replaced by the cached pin set: king and rook on the rank with only the two pawns between (true stalemate reads Ongoing)',
 'S-C05-6': 'update_pin_info cheap reject: returns with both caches empty when no enemy man is on a ray of the king -- a knight check from FEN is lost',
 'S-C09-6': 'side key folded into the stored hash through a pass_turn helper; in-place make_move keeps the raw flip and never toggles the key',
 'S-C13-6': 'UCI promotion letters looked up in ["q","r","n","b"] and used as index into PROMOTION_PIECES [Q,N,R,B]: r and n are crossed',
 'S-C15-5': 'bmi2 generator returns the highest index written as the next offset: every table starts on the last slot of the previous one',
 'S-C16-6': 'LINE generator early exit "src and dest lie on their own line": non-aligned pairs get {a, b}, identical squares {a}',
 'S-C17-6': 'legal_ep_move skips the rook lookup unless the king is on the pawn\'s file or on the absolute Rank::Fifth (White\'s en-passant rank only)',
 'S-C18-6': 'null_move recomputation moved into `debug_assert!(!result.in_check())`: release builds keep the passer\'s pins',
 'S-C19-6': 'get() returns None early when the stored hash is 0 ("empty slot"): hash 0 can never be read back',
 'S-C20-6': 'assigning operators generated by a macro; the BitAndAssign invocation passes BitOr: `a &= b` computes the union',
 'S-C01-6': 'ADJACENT_FILES generator uses File::left()/right(), which wrap: file A is adjacent to H and H to A (en passant "round the board")',
 'S-C02-6': 'make_move copies `*self` into the output only when the stored hashes differ: same placement with other side/rights keeps stale fields',
 'S-C03-6': 'double-push branch moved after the side flip together with its direct-check line: `!side_to_move` now names the pawn\'s colour',
 'S-C06-6': 'FEN placement field assembled in a 64-byte stack buffer (the seven `/` forgotten): crowded positions panic',
 'S-C07-6': 'is_sane castling conjuncts merged into one mask over kings|rooks: an own rook on e1 vouches for the king',
 'S-C08-6': 'castle keys folded into the stored hash; add_castle_rights xors castles(add) instead of castles(old.add(add))',
 'S-C10-6': 'result() replays the log itself and names the winner by the parity of the ply count (start side dropped)',
 'S-C11-6': 'result() gate of can_declare_draw replaced by a last-action test up front and a status test placed after the fifty-move `return true`',
 'S-C12-6': 'source rank read as digit with `d <= 8` guard only: "0" underflows (panic in debug, rank 8 in release)',
 'S-C14-6': 'pinned-pawn entries pushed with promotion flag `false`: a diagonally pinned pawn capturing the pinner on the back rank yields one non-promotion move',
 'S-C04-5': 'update_pin_info masks the enemy army to the king\'s lines once and returns early when that is empty: a knight check from FEN is lost (smothered mate reads Ongoing)',
 'S-C05-5': 'knight-check line made branch-free; in make_move it sits before the promotion is applied: e7e8=N+ leaves checkers empty',
 'S-C09-5': 'Zobrist::en_passant takes the square and derives the column as index / 8 (the rank): all files of a colour share one key',
 'S-C13-5': 'ChessMove::from_str takes `split_whitespace().next()`: leading white space is skipped, result is not a prefix of the input',
 'S-C16-5': 'ADJACENT_FILES generator compares `file == i.saturating_sub(1)`: file A is adjacent to itself',
 'S-C17-5': 'update_pin_info `break`s at the first slider with a clear line: sliders later in a1..h8 order are not classified',
 'S-C18-5': 'null_move rebuilt on a shared pass_turn helper that tests checkers AFTER the flip: never refused in check',
 'S-C19-5': 'power-of-two check rewritten as `size & size.wrapping_sub(1) != 0`: size 0 is accepted',
 'S-C20-5': 'Iterator::fold overridden with a shift walk `bits >>= skip + 1`: shift by 64 on the lone-h8 board',
 'S-C01-5': 'legal_ep_move early accept when not in check and neither vanishing pawn is in `pinned`: king and rook on the rank with only the two pawns between',
 'S-C02-5': 'both castle-rights updates skipped when the MOVER has no rights left: capturing the opponent\'s home-square rook keeps its right',
 'S-C03-5': 'update_pin_info adds knight/pawn checkers only if the slider scan found none: knight+slider double check from FEN loses the knight',
 'S-C06-5': 'builder caches the en-passant SQUARE computed from the side to move at set time; side_to_move() setter does not recompute it',
 'S-C07-5': 'Board::try_from moves the set_ep block after update_pin_info/is_sane: the en-passant conjunct of is_sane never fires',
 'S-C08-5': 'Board::xor takes (square, bitboard); the en-passant capture passes `dest` as the square: hash toggles the wrong pawn key',
 'S-C10-5': 'accept_draw rewritten as a slice-pattern match and the `result().is_some()` gate dropped as redundant: accepted after a mating move',
 'S-C11-5': 'rights-change test compares castle_rights(side_to_move()) before with the same expression after the move (side flipped): list cleared every ply when the sides\' rights differ',
 'S-C12-5': 'fast path for fully qualified piece texts (Nb1c3) validated by legal_quick only: returns illegal moves',
 'S-C14-5': 'set_iterator_mask returns early for mask == !EMPTY without re-partitioning: exhausted entries stay in front',
 'S-C15-4': 'hemmed-in fast path in get_rook/bishop_moves returns king_moves & magic.mask (mask lacks the ray ends) when all eight neighbours are occupied',
 'S-C04-4': 'en-passant capture additionally required to land on the check mask: the only reply to a double-push check is dropped, Checkmate for Ongoing',
 'S-C05-4': 'en-passant early accept when neither pawn is in `pinned` and not in check: king and rook on the capture rank with only the two pawns between',
 'S-C09-4': 'get_hash hashes the en-passant right as a ghost pawn on the skipped square (piece key shared between two components)',
 'S-C13-4': 'SAN and UCI promotion tables merged into one helper accepting both cases: "e7e8Q" parses and renders as "e7e8q"',
 'S-C16-4': 'get_pawn_quiets branch-free: own square removed with `^` (adds it when absent), smear makes a phantom blocker',
 'S-C17-4': 'gen_lines visits unordered pairs with an inner bound one short: every LINE entry involving h8 stays empty',
 'S-C18-4': 'update_pin_info fast path returns before `pinned = EMPTY` when no slider shares a line with the king: stale pins survive null_move',
 'S-C19-4': 'slot taken from the top bits by `hash >> (64 - log2 size)`: size-1 table shifts by 64',
 'S-C20-4': 'reverse_colors uses reverse_bits (180 degree rotation) instead of swap_bytes',
 'S-C01-1': 'en-passant source loop skips pinned pawns (a pawn pinned along the capture diagonal may capture)',
 'S-C01-2': 'promotion flag computed from the unpinned pawns only: a pinned pawn capturing onto the last rank yields one non-promotion move',
 'S-C02-1': 'set_ep tests `sq.uleft() | sq.uright()` instead of adjacent files & rank: wraps round the board edge',
 'S-C02-2': 'mover rights dropped via rook_square_to_castle_rights(source): any rook leaving an a/h-file square loses the right',
 'S-C03-1': 'slider scan reads an occupancy captured before the last placement changes',
 'S-C03-2': 'slider scan `break`s after the second checker: pins by later sliders lost',
 'S-C04-1': 'status() returns Ongoing early whenever an en-passant square is recorded',
 'S-C05-1': 'removal of the opponent\'s right by destination square dropped (rook captured on its home square keeps the right)',
 'S-C05-2': 'king fast path clears only the mover\'s rights: a king capturing an unmoved rook leaves the right',
 'S-C06-1': 'builder -> board stores the en-passant square when a pawn of either colour stands beside it (bypasses set_ep)',
 'S-C06-2': 'board -> builder drops the en-passant file when every adjacent pawn is pinned',
 'S-C07-1': 'is_sane castling conjunct tests the home squares against rooks of either colour',
 'S-C08-1': 'castling rook relocated with one xor of `start ^ end` (a two-square set through the single-square toggle)',
 'S-C08-2': 'en-passant key folded into the stored hash in set_ep/remove_ep with the colour read on the wrong side of the flip',
 'S-C09-1': 'get_hash looks up the opponent\'s castling key in the mover\'s colour row: the two components cancel',
 'S-C10-1': 'make_move tests `status() != Ongoing` instead of result(): moves accepted after resignation / agreed draw',
 'S-C10-2': '`*self.moves.last()?` hoisted before the status test: result() is None for a mated start position with an empty log',
 'S-C11-1': 'repetition search replaced by a count over every fourth earlier entry',
 'S-C12-1': 'source square taken from the parsed text instead of the candidate move',
 'S-C12-2': 'castling text builds a king move from the current king square: `O-O` with the king on f1 returns Kg1',
 'S-C13-1': 'UCI reader checks `len() < 4` and then slices `&s[0..2]`: text with a multi-byte character panics',
 'S-C13-2': 'Square::from_str narrows `char as u8` before validating: non-ASCII letters alias a..h / 1..8',
 'S-C14-1': 'remove_mask / remove_move re-partition only when some entry became empty (entries empty under the mask are left in front)',
 'S-C14-2': 'remove_move edits only the first entry of the source square (`find`)',
 'S-C15-1': 'BMI2 lookups compute the pext mask as `rays & !EDGES` instead of the generated mask (bmi2 configuration only)',
 'S-C16-1': 'pawn-attack generator uses the wrapping forward step: last-rank entries non-empty',
 'S-C17-1': 'en-passant sources computed with raw shifts on the word',
 'S-C18-1': 'null_move recomputes only the pins (new helper), leaving checkers untouched',
 'S-C19-1': 'stored hash narrowed to u32',
 'S-C20-1': '`^=` with a borrowed right-hand side computes `|`',
 'S-C04-2': 'in-place make_move merges the knight-promotion arm into the generic one: an under-promotion to a knight that gives check leaves checkers empty',
 'S-C07-2': 'Square::from_str evaluates `&s[1..]` eagerly: a multi-byte first character (FEN en-passant field) panics',
 'S-C09-2': 'castling rook relocated by one xor of `start ^ end`: the hash toggles only the lowest square\'s key',
 'S-C11-2': 'fifty-move count computed as `moves.len() - index of the last irreversible action`: draw offers count as half-moves',
 'S-C15-2': 'magic generator validates candidates on all but the last occupancy (`0..last`): two multipliers collide on the fully blocked occupancy',
 'S-C16-2': 'between-table generator drops the "endpoints share a diagonal" test: 520 non-aligned pairs get a spurious square',
 'S-C17-2': 'en-passant loop keeps a hoisted occupancy and never puts the capturing pawn back: the second capturer is tested on a stale board (a->h order dependence)',
 'S-C18-2': 'null_move returns early (before remove_ep) when the passer has no slider: the en-passant square survives',
 'S-C19-2': 'replace_if skips the store when the payload is equal (`e.entry != entry && replace(..)`): the hash tag is not updated',
 'S-C20-2': 'popcnt replaced by a SWAR count with a final mask of 0x3f: the full board counts 0',
 'S-C01-3': 'Board::legal answers from the first move-list entry of the source square only (`has_move`): a legal en-passant capture of a pawn that also has another move is rejected',
 'S-C02-3': 'set_ep ignores pinned capturers and the en-passant square is re-evaluated after the pin scan: a capture along the pin diagonal loses its en-passant square',
 'S-C03-3': 'captured-piece bookkeeping merged: the pawn direct-check term uses the captured pawn\'s square instead of the destination after an en-passant capture',
 'S-C05-3': 'promotion flag computed from the unpinned pawns only (pinned pawn capturing its pinner on the last rank stays a pawn)',
 'S-C06-3': 'board -> builder fills the castling slots from my_/their_castle_rights: swapped when Black is to move',
 'S-C07-3': 'is_sane reuses null_move() for the opponent-in-check test: skipped when the side to move is itself in check',
 'S-C08-3': 'promotion through a hand-written `promote` helper that swaps the piece boards and adds only the new piece\'s key: the pawn key stays in the hash',
 'S-C10-3': 'Game::make_move checks legality by destination mask + source square only: a bogus promotion field is accepted and logged',
 'S-C12-3': 'destination fallback branches merged: a non-capturing promotion followed by a check sign (`e8Q+`) is rejected',
 'S-C14-3': 'len() subtracts promotion_index inside every promotion entry instead of once',
 'S-C04-3': 'status() as a tuple match on (move count, checkers.popcnt()) with arms (0,0) and (0,1) only: a double-check mate is Ongoing',
 'S-C09-3': 'Zobrist generator reuses the sparse random_bitboard helper: one piece key is zero',
 'S-C11-3': 'moves classified after they are made (`next.piece_on(dest) == Pawn`): a quiet promotion does not reset the counter',
 'S-C13-3': 'UCI null-move support: Display prints "0000" whenever source == dest; from_str("0000") returns ChessMove::default()',
 'S-C15-3': 'BMI2 table generator uses a software pext that loops over bits 0..63: h8 is never extracted (bmi2 configuration only)',
 'S-C16-3': 'Square::uleft as index arithmetic with a plain `- 1`: A1.uleft() overflows',
 'S-C17-3': 'double-pawn-step check recorded only if the king stands on `dest.get_rank().up()`: true for White pawns only',
 'S-C18-3': 'update_pin_info split into pin_info(color); one side_to_move left unparametrised (pawn attack direction) and null_move passes the other colour',
 'S-C19-3': 'get/add index through a 32-bit fold helper, replace_if left on the plain index: the three operations disagree on the slot',
 'S-C20-3': 'to_square scans the two 32-bit halves; the "both halves occupied" case falls into the high-half arm',
 'S-C01-4': 'en-passant branch of make_move no longer adds the capturing pawn\'s direct check: the generator sees a side in check as not in check',
 'S-C02-4': 'set_ep skipped when the double push itself gives check',
 'S-C03-4': 'null_move replaces update_pin_info by an inlined pins-only scan that does not reset `pinned` first',
 'S-C06-4': 'FEN writer computes the en-passant field through left()?/right()?: a- and h-file pushes print `-`',
 'S-C07-4': 'men bound per colour replaced by a bound on the whole board (<= 32): 25 white men are accepted',
 'S-C08-4': 'in-place make_move initialises the output field by field and leaves `hash` to the buffer\'s old value',
 'S-C10-4': 'result() guard of can_declare_draw folded into the replay loop without a DeclareDraw arm: a declared draw can be declared again',
 'S-C11-4': 'pawn move detected on the board after the move: a quiet promotion neither resets the counter nor clears the list',
 'S-C12-4': '`exact_source` flag read before the destination fallback: bare ambiguous texts (`Nc3`, `Rd1`) return the first candidate',
 'S-C14-4': 'next() advances past a promotion entry only when its bitboard is empty (not empty under the mask): iteration stops early under a mask',
}


def main():
    rows = []
    sd = os.path.join(HERE, 'seeded')
    for d in sorted(os.listdir(sd)):
        mp = os.path.join(sd, d, 'meta.json')
        if not os.path.exists(mp):
            continue
        m = json.load(open(mp))
        what = m.get('what') or WHAT.get(d, 'see seeded/%s/notes.md' % d)
        rows.append('| %s | %s | %s | %s | %s |' % (d, m['property'], what, 'yes' if m.get('confirmed') else 'NO',
                                                     (m.get('check_exit', '?') + ': ' + ', '.join(m.get('caught_by') or [])).strip(': ')))
    out = ['| seed | property | change | confirmed (tests pass, demo fails) | reported by |', '|---|---|---|---|---|'] + rows
    lp = os.path.join(HERE, 'selftest', 'last_run.json')
    if os.path.exists(lp):
        rec = [r for r in json.load(open(lp)) if not r['id'].startswith('S-')]
        out += ['', 'Self-test mutants (`selftest/mutants.json`; last full run in `selftest/last_run.json`): %d mutants, %d reported by the '
                'expected rule, %d by another rule of the same property, %d not reported, %d skipped.' % (
                    len(rec), sum(r['status'] == 'killed' for r in rec), sum(r['status'] == 'killed-other-rule' for r in rec),
                    sum(r['status'] in ('missed', 'inconclusive') for r in rec), sum(r['status'] == 'skipped' for r in rec)), '',
                '| mutant | file | expected rule | verdict |', '|---|---|---|---|']
        for r in rec:
            out.append('| %s | %s | %s | %s |' % (r['id'], r['where'], r['expect'], r['status']))
    p = os.path.join(HERE, 'DESIGN.md')
    s = open(p).read()
    s = re.sub(r'<!-- CATCH-TABLE:BEGIN -->.*?<!-- CATCH-TABLE:END -->',
               lambda _: '<!-- CATCH-TABLE:BEGIN -->\n' + '\n'.join(out) + '\n<!-- CATCH-TABLE:END -->', s, flags=re.S)
    open(p, 'w').write(s)
    print('seeds', len(rows))


if __name__ == '__main__':
    main()
