#!/bin/bash
# usage: confirm_seed.sh <worktree with seed/patch.diff and seed/seed_demo.rs> <seed id> <property>
# Confirms in the scratch worktree: (a) with the patch the 36 unit + doc tests pass and the demo fails,
# (b) without it the demo passes.  Then stores the seed under /verif/seeded/<id>/.
set -u
WT=$1; ID=$2; PROP=$3
cd $WT || exit 2
git checkout -q -- src 2>/dev/null
mkdir -p tests; cp seed/seed_demo.rs tests/seed_demo.rs
echo "--- baseline (no patch): demo"
B=$(cargo test --offline --test seed_demo 2>&1 | grep "^test result" | tail -1); echo "$B"
git apply seed/patch.diff || { echo "patch does not apply"; exit 2; }
echo "--- with patch: lib + doc"
L=$(cargo test --offline --lib 2>&1 | grep "^test result" | tail -1); echo "$L"
D=$(cargo test --offline --doc 2>&1 | grep "^test result" | tail -1); echo "$D"
echo "--- with patch: demo"
P=$(cargo test --offline --test seed_demo 2>&1 | grep "^test result" | tail -1); echo "$P"
git checkout -q -- src
mkdir -p /verif/seeded/$ID
cp seed/patch.diff /verif/seeded/$ID/patch.diff
cp seed/seed_demo.rs /verif/seeded/$ID/seed_demo.rs
cp seed/notes.md /verif/seeded/$ID/notes.md 2>/dev/null
python3 - "$ID" "$PROP" "$B" "$L" "$D" "$P" <<'PY'
import json,sys
id_,prop,b,l,d,p=sys.argv[1:7]
ok = ('ok.' in b and 'ok.' in l and 'ok.' in d and 'FAILED' in p)
json.dump(dict(id=id_, property=prop, confirmed=ok,
  ran=dict(baseline_demo=b, patched_lib=l, patched_doc=d, patched_demo=p),
  how="scratch git worktree of /repo: cargo test --offline --test seed_demo (unpatched); git apply patch.diff; cargo test --offline --lib / --doc / --test seed_demo; git checkout -- src",
  needs="see notes.md"), open('/verif/seeded/%s/meta.json'%id_,'w'), indent=1)
print("CONFIRMED" if ok else "NOT CONFIRMED")
PY
