#!/usr/bin/env python3
import json, sys, os, glob
import jsonschema
H = os.path.dirname(os.path.dirname(os.path.abspath(__file__)))
jsonschema.validate(json.load(open(H + '/MANIFEST.json')), json.load(open('/root/.vp/MANIFEST.schema.json')))
es = json.load(open('/root/.vp/EVIDENCE.schema.json'))
for p in sorted(glob.glob(H + '/evidence/C*.json')):
    jsonschema.validate(json.load(open(p)), es)
    print('ok', os.path.basename(p))
print('manifest valid')
