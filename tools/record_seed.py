#!/usr/bin/env python3
"""usage: record_seed.py [seed ids...]   (default: every /verif/seeded/S-*)
Applies each seeded change to /repo (git apply), runs the owning property's quick check (plus any
listed in meta.also), undoes the change, and records which rules reported it in meta.json."""
import json, os, re, subprocess, sys
ROOT = '/verif/seeded'
ids = sys.argv[1:] or sorted(d for d in os.listdir(ROOT) if d.startswith('S-'))
for i in ids:
    mp = os.path.join(ROOT, i, 'meta.json')
    meta = json.load(open(mp))
    props = [meta['property']] + meta.get('also', [])
    out = subprocess.run(['/verif/tools/run_seed.sh', i] + props, capture_output=True, text=True).stdout
    rules = sorted(set(re.findall(r'^  (C\d\d\.R\w+):', out, re.M)))
    status = 'VIOLATION' if 'VIOLATION' in out else ('INCONCLUSIVE' if 'INCONCLUSIVE' in out else 'PASS')
    meta['caught_by'] = rules
    meta['check_exit'] = status
    json.dump(meta, open(mp, 'w'), indent=1)
    print(i, status, ','.join(rules))
    dirty = subprocess.run(['git', '-C', '/repo', 'status', '--porcelain'], capture_output=True, text=True).stdout
    if dirty.strip():
        print('!! /repo dirty after', i, dirty)
        sys.exit(2)
