#!/usr/bin/env python3
"""usage: add_mutant.py <id> <props,comma> <expect rule> <file> <old> <new>   (appends to selftest/mutants.json; replaces same id)"""
import json, sys, os
HERE = os.path.dirname(os.path.dirname(os.path.abspath(__file__)))
p = os.path.join(HERE, 'selftest', 'mutants.json')
ms = json.load(open(p))
id_, props, expect, file, old, new = sys.argv[1:7]
src = open(os.path.join('/repo', file)).read()
if src.count(old) < 1:
    print('PATTERN NOT FOUND in /repo/' + file); sys.exit(3)
ms = [m for m in ms if m['id'] != id_]
ms.append(dict(id=id_, props=props.split(','), file=file, expect=expect, old=old, new=new))
json.dump(ms, open(p, 'w'), indent=1)
print('mutants:', len(ms))
