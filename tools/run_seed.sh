#!/bin/bash
# usage: run_seed.sh <seed id> [props...]   apply /verif/seeded/<id>/patch.diff to a scratch copy of /repo's working
# tree (so that concurrent runs never see a modified /repo), run the checks on it, remove the copy
ID=$1; shift
D=$(mktemp -d /tmp/chess-seed.XXXXXX)
trap 'rm -rf "$D"' EXIT
rsync -a --exclude target --exclude .git /repo/ "$D"/ || exit 2
(cd "$D" && patch -p1 -s --no-backup-if-mismatch -i /verif/seeded/$ID/patch.diff) || { echo "patch does not apply"; exit 2; }
PROPS="$@"
[ -z "$PROPS" ] && PROPS=$(python3 -c "import json;print(json.load(open('/verif/seeded/$ID/meta.json'))['property'])")
for P in $PROPS; do
  /verif/check $P --repo "$D" --no-evidence 2>&1 | grep -E "^  C|VIOLATION|INCONCLUSIVE|^PASS|^FAIL" | cut -c1-330
done
