#!/bin/bash
# usage: run_seed.sh <seed id> [props...]   apply /verif/seeded/<id>/patch.diff to /repo, run checks, undo
ID=$1; shift
cd /repo || exit 2
git diff --quiet || { echo "/repo not clean"; exit 2; }
git apply /verif/seeded/$ID/patch.diff || { echo "patch does not apply"; exit 2; }
PROPS="$@"
[ -z "$PROPS" ] && PROPS=$(python3 -c "import json;print(json.load(open('/verif/seeded/$ID/meta.json'))['property'])")
for P in $PROPS; do
  /verif/check $P --no-evidence 2>&1 | grep -E "^  C|VIOLATION|INCONCLUSIVE|^PASS|^FAIL" | cut -c1-330
done
git checkout -- .
