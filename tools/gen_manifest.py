#!/usr/bin/env python3
"""Generate MANIFEST.json from the rule modules present in sa/rules (their LEVEL/EXPLANATION fields)."""
import importlib, json, os, sys
HERE = os.path.dirname(os.path.dirname(os.path.abspath(__file__)))
sys.path.insert(0, HERE)
props = [json.loads(l) for l in open(os.path.join(HERE, 'properties.jsonl'))]
checks = []
na = []
TECH = {}
for p in props:
    pid = p['id']
    try:
        mod = importlib.import_module('sa.rules.%s' % pid.lower())
    except ImportError:
        na.append(dict(property_id=pid, reason='static rule set for this property not built yet (see DESIGN.md section 5)'))
        continue
    level = getattr(mod, 'LEVEL', 'other')
    checks.append(dict(
        property_id=pid,
        quick_cmd='./check %s --tier quick' % pid,
        thorough_cmd='./check %s --tier thorough' % pid,
        evidence_file='evidence/%s.json' % pid,
        replay_cmd_template='./check %s --replay {path}' % pid,
        engine='sa',
        level_claimed=dict(category=level, text=getattr(mod, 'EXPLANATION', ''), design_ref='DESIGN.md section 5, %s' % pid),
        level_note=getattr(mod, 'LEVEL_NOTE', 'Trusted: rustc nightly MIR construction/trait resolution/const evaluation, the '
                           'chessfacts serialiser, the Python rule engine, u64/usize operator semantics, std behaving as '
                           'documented. Decides the structural clauses listed in DESIGN.md section 5; clauses not decided: ')
                   + ' ' + getattr(mod, 'NOT_DECIDED', ''),
        technique=getattr(mod, 'TECHNIQUE', 'static analysis: custom rules over rustc MIR facts (dataflow / origin '
                          'expressions, control dependence, effects, constant-table audit)'),
    ))
m = dict(
    version=1,
    setup_cmd='./setup.sh',
    hooks=dict(guard='jordanbray_chess_verif', enable='none: static analysis needs no instrumentation; no hook commits',
               baseline_off_cmd='cd /repo && cargo test --workspace --no-fail-fast --offline',
               source_commits=[], add_only=True),
    engines=[dict(name='chessfacts', path='engine/chessfacts', serves_properties=[c['property_id'] for c in checks],
                  kind_free_text='rustc_private driver (RUSTC_WORKSPACE_WRAPPER) emitting MIR/ADT/const facts as JSON; configurations default, bmi2 (-C target-feature=+bmi2) and nodebug (-C debug-assertions=off)'),
             dict(name='sa', path='sa', serves_properties=[c['property_id'] for c in checks],
                  kind_free_text='Python static-analysis library and per-property rule modules'),
             dict(name='witness', path='witness', serves_properties=['C01', 'C02', 'C03', 'C05', 'C07', 'C08', 'C10', 'C13', 'C14', 'C18', 'C19'],
                  kind_free_text='compile_fail doc-test witnesses with compiling twins (thorough tier)')],
    checks=checks,
    not_applicable=na,
    notes='Family: static analysis. Every check inspects /repo\'s current source (type-checked MIR via a rustc driver) and '
          'reports file:line + rule + instance. Exit 0: held on everything explored (a rule that met a shape outside its idiom '
          'tables prints an INCONCLUSIVE line and is recorded in the evidence, but does not fail the check); exit 1 with a VIOLATION '
          'line: a rule found the property broken; exit 2 only when the checker itself could not run (extraction / internal error). '
          'Fix commits in /repo: see known_findings.txt.',
)
json.dump(m, open(os.path.join(HERE, 'MANIFEST.json'), 'w'), indent=1)
print('checks', len(checks), 'not_applicable', len(na))
