#!/usr/bin/env python3
"""usage: check_all.py --repo <dir> [props...]   Runs the quick checks of several properties on ONE tree in one process,
sharing the parsed facts and function summaries (a testing shortcut for tools/benign.py and tools/selftest.py; the
registered commands stay one process per property).  Prints each check's output; exit code = the worst one."""
import io, os, sys, contextlib
HERE = os.path.dirname(os.path.dirname(os.path.abspath(__file__)))
sys.path.insert(0, HERE)
os.chdir(HERE)
from sa import run


def main():
    args = sys.argv[1:]
    repo = '/repo'
    if args[:1] == ['--repo']:
        repo = args[1]
        args = args[2:]
    props = args or ['C%02d' % i for i in range(1, 21)]
    run.Ctx.SHARED = {}
    worst = 0
    for p in props:
        buf = io.StringIO()
        with contextlib.redirect_stdout(buf):
            try:
                rc = run.main([p, '--repo', repo, '--no-evidence', '--tier', 'quick'])
            except SystemExit as e:
                rc = int(e.code or 0)
        print('=== %s exit %d' % (p, rc))
        sys.stdout.write(buf.getvalue())
        worst = max(worst, rc)
    return worst


if __name__ == '__main__':
    sys.exit(main())
