#!/usr/bin/env python3
"""Behaviour-preserving refactors (selftest/benign.json: id, file, old, new, note): each is applied to a scratch
copy of /repo and ALL listed (default: all 20) checks must stay silent (exit 0).  Tests the checker for false alarms."""
import json, os, subprocess, sys, tempfile, shutil, concurrent.futures as cf
HERE = os.path.dirname(os.path.dirname(os.path.abspath(__file__)))
REPO = os.environ.get('CHESS_REPO', '/repo')
ALL = ['C%02d' % i for i in range(1, 21)]


def run_one(m):
    d = tempfile.mkdtemp(prefix='chess-ben-')
    try:
        subprocess.run(['rsync', '-a', '--exclude', 'target', '--exclude', '.git', REPO + '/', d + '/'], check=True)
        if 'patch' in m:
            r = subprocess.run(['patch', '-p1', '-s', '--no-backup-if-mismatch', '-i', m['patch']], cwd=d,
                               stdout=subprocess.PIPE, stderr=subprocess.STDOUT, text=True)
            if r.returncode != 0:
                return m['id'], 'skipped', 'patch does not apply'
        for e in m.get('edits', []):
            p = os.path.join(d, e['file'])
            s = open(p).read()
            if s.count(e['old']) < 1:
                return m['id'], 'skipped', 'pattern not found in ' + e['file']
            open(p, 'w').write(s.replace(e['old'], e['new'], 1))
        res = []
        if os.environ.get('BENIGN_SEPARATE'):
            for prop in m.get('props') or ALL:
                r = subprocess.run([os.path.join(HERE, 'check'), prop, '--repo', d, '--no-evidence', '--tier', 'quick'],
                                   stdout=subprocess.PIPE, stderr=subprocess.STDOUT, text=True)
                if r.returncode != 0 or 'INCONCLUSIVE property=' in r.stdout:
                    lines = [l.strip() for l in r.stdout.splitlines() if l.startswith('  C') or l.startswith('INCONCLUSIVE property')]
                    res.append('%s exit %d: %s' % (prop, r.returncode, (lines or ['?'])[0][:260]))
        else:
            # one process for all the checks of this tree (shared facts and summaries): tools/check_all.py
            r = subprocess.run([sys.executable, os.path.join(HERE, 'tools', 'check_all.py'), '--repo', d] + list(m.get('props') or ALL),
                               stdout=subprocess.PIPE, stderr=subprocess.STDOUT, text=True)
            cur, rc, out = None, 0, []
            sections = []
            for l in r.stdout.splitlines():
                if l.startswith('=== '):
                    if cur:
                        sections.append((cur, rc, out))
                    _, cur, _, rc_ = l.split()
                    rc, out = int(rc_), []
                else:
                    out.append(l)
            if cur:
                sections.append((cur, rc, out))
            if len(sections) != len(m.get('props') or ALL):
                res.append('check_all exit %d: %s' % (r.returncode if r.returncode else 2, r.stdout[-300:].replace('\n', ' | ')))
            for prop, rc, out in sections:
                if rc != 0 or any('INCONCLUSIVE property=' in l for l in out):
                    lines = [l.strip() for l in out if l.startswith('  C') or l.startswith('INCONCLUSIVE property')]
                    res.append('%s exit %d: %s' % (prop, rc, (lines or ['?'])[0][:260]))
        st = 'silent' if not res else ('ALARM' if any(' exit 1:' in x for x in res) else 'inconcl')
        return m['id'], st, ' || '.join(res)
    finally:
        shutil.rmtree(d, ignore_errors=True)


def main():
    ms = json.load(open(os.path.join(HERE, 'selftest', 'benign.json')))
    bd = os.path.join(HERE, 'selftest', 'benign')
    for f in sorted(os.listdir(bd)) if os.path.isdir(bd) else []:
        if f.endswith('.diff'):
            ms.append(dict(id=f[:-5], patch=os.path.join(bd, f)))
    sel = sys.argv[1:]
    if sel:
        ms = [m for m in ms if m['id'] in sel]
    bad = 0
    inc = 0
    with cf.ThreadPoolExecutor(max_workers=int(os.environ.get('SELFTEST_JOBS', '4'))) as ex:
        for mid, status, detail in ex.map(run_one, ms):
            print('%-34s %-8s %s' % (mid, status, detail))
            bad += status == 'ALARM'
            inc += status == 'inconcl'
    print('benign refactors: %d, false VIOLATION alarms: %d, INCONCLUSIVE lines (no alarm): %d' % (len(ms), bad, inc))
    return 1 if bad else 0


if __name__ == '__main__':
    sys.exit(main())
