#!/usr/bin/env python3
"""E6 — checker self-test by seeded mutants.

selftest/mutants.json: list of {id, props:[..], file, old, new, expect (rule id prefix), note}.
Each mutant is applied (literal replacement, exactly once) to a scratch copy of /repo under mktemp,
the listed checks are run against the copy, and a VIOLATION naming the expected rule is required.
A mutant whose `old` text no longer occurs in an edited /repo is reported as skipped.
This runs the checker, never the chess library."""
import json, os, subprocess, sys, tempfile, shutil, concurrent.futures as cf
HERE = os.path.dirname(os.path.dirname(os.path.abspath(__file__)))
REPO = os.environ.get('CHESS_REPO', '/repo')


def load(props=None, ids=None):
    """Mutants from selftest/mutants.json plus the confirmed seeded changes under seeded/ (as patches)."""
    ms = json.load(open(os.path.join(HERE, 'selftest', 'mutants.json')))
    sd = os.path.join(HERE, 'seeded')
    for d in sorted(os.listdir(sd)) if os.path.isdir(sd) else []:
        mp = os.path.join(sd, d, 'meta.json')
        if not os.path.exists(mp):
            continue
        meta = json.load(open(mp))
        if not meta.get('confirmed'):
            continue
        ms.append(dict(id=d, props=[meta['property']], patch=os.path.join(sd, d, 'patch.diff'),
                       expect=(meta.get('caught_by') or [meta['property']])[0]))
    if props or ids:
        ms = [m for m in ms if m['id'] in (ids or ()) or any(p in (props or ()) for p in m['props'])]
    return ms


def run_one(m, repo=None):
    repo = repo or REPO
    d = tempfile.mkdtemp(prefix='chess-mut-')
    try:
        subprocess.run(['rsync', '-a', '--exclude', 'target', '--exclude', '.git', repo + '/', d + '/'], check=True)
        if 'patch' in m:
            r = subprocess.run(['patch', '-p1', '-s', '--no-backup-if-mismatch', '-i', m['patch']], cwd=d,
                               stdout=subprocess.PIPE, stderr=subprocess.STDOUT, text=True)
            if r.returncode != 0:
                return m['id'], 'skipped', 'patch does not apply'
        else:
            p = os.path.join(d, m['file'])
            s = open(p).read()
            if s.count(m['old']) < 1:
                return m['id'], 'skipped', 'pattern not found'
            s = s.replace(m['old'], m['new'], 1)
            open(p, 'w').write(s)
        res = []
        status = 'missed'
        for prop in m['props']:
            r = subprocess.run([os.path.join(HERE, 'check'), prop, '--repo', d, '--no-evidence', '--tier', 'quick'],
                               stdout=subprocess.PIPE, stderr=subprocess.STDOUT, text=True)
            out = r.stdout
            lines = [l for l in out.splitlines() if l.startswith('  C') or 'VIOLATION' in l or 'INCONCLUSIVE' in l]
            hit = [l for l in out.splitlines() if l.strip().startswith(m['expect'])]
            if r.returncode == 1 and hit:
                status = 'killed'
                res.append('%s: %s' % (prop, hit[0].strip()[:200]))
            elif r.returncode == 1:
                if status != 'killed':
                    status = 'killed-other-rule'
                res.append('%s: %s' % (prop, (lines or [''])[0].strip()[:200]))
            elif r.returncode == 2 or 'INCONCLUSIVE property=' in out:
                if status == 'missed':
                    status = 'inconclusive'
                res.append('%s: %s' % (prop, (lines or [''])[0].strip()[:200]))
            else:
                res.append('%s: PASS' % prop)
        return m['id'], status, ' | '.join(res)
    finally:
        shutil.rmtree(d, ignore_errors=True)


def run_for(prop, repo, jobs=8):
    """All mutants and seeds of one property against scratch copies of `repo`; list of (id, status, detail)."""
    ms = load(props=[prop])
    # a mutant listed under several properties belongs to the one whose rule is expected to report it
    ms = [dict(m, props=[prop]) for m in ms if m['expect'].startswith(prop)]
    with cf.ThreadPoolExecutor(max_workers=jobs) as ex:
        return list(ex.map(lambda m: run_one(m, repo), ms))


def main():
    sel = sys.argv[1:]
    ms = load(props=sel, ids=sel) if sel else load()
    bad = 0
    rec = []
    with cf.ThreadPoolExecutor(max_workers=int(os.environ.get('SELFTEST_JOBS', '4'))) as ex:
        for m, (mid, status, detail) in zip(ms, ex.map(run_one, ms)):
            print('%-28s %-18s %s' % (mid, status, detail))
            rec.append(dict(id=mid, props=m['props'], expect=m['expect'], status=status, detail=detail[:240],
                            where=m.get('file') or 'seeded/%s/patch.diff' % mid))
            if status not in ('killed', 'skipped'):
                bad += 1
    if not sel:
        json.dump(rec, open(os.path.join(HERE, 'selftest', 'last_run.json'), 'w'), indent=1)
    print('mutants: %d, not killed by the expected rule: %d' % (len(ms), bad))
    return 1 if bad else 0


if __name__ == '__main__':
    sys.exit(main())
