#!/bin/bash
# usage: mut.sh <PROP[,PROP..]> <file relative to repo> <python-regex-or-literal old> <new>   (literal replace, once)
# applies the edit to a scratch copy of /repo, runs the checks against it, removes the copy
set -u
PROPS=$1; FILE=$2; OLD=$3; NEW=$4
D=$(mktemp -d /tmp/mut.XXXXXX)
rsync -a --exclude target --exclude .git /repo/ $D/
python3 - "$D/$FILE" "$OLD" "$NEW" <<'PY'
import sys
p,old,new=sys.argv[1:4]
s=open(p).read()
n=s.count(old)
if n<1: print("PATTERN NOT FOUND"); sys.exit(3)
s=s.replace(old,new,1)
open(p,'w').write(s)
PY
[ $? -eq 0 ] || { rm -rf $D; exit 3; }
for P in ${PROPS//,/ }; do
  /verif/check $P --repo $D --no-evidence 2>&1 | grep -E "VIOLATION|INCONCLUSIVE|^PASS|^FAIL|^  C" | cut -c1-400
done
rm -rf $D
