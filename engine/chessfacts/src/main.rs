// chessfacts: a rustc_private driver that serialises the type-checked program (MIR bodies with
// resolved callees, ADTs with layouts, impls, evaluated constants) of the crate being compiled to
// one JSON file. It runs as RUSTC_WORKSPACE_WRAPPER under `cargo +nightly check`; nothing of the
// analysed crate is executed (constants are read from the compiler's const evaluator).
//
// Output: $CHESSFACTS_OUT/<crate_name>.json (one write per process). Crates whose name is not in
// $CHESSFACTS_CRATES (comma separated, default "chess") are compiled normally.
#![feature(rustc_private)]
#![allow(rustc::usage_of_ty_tykind)]

extern crate rustc_abi;
extern crate rustc_driver;
extern crate rustc_hir;
extern crate rustc_interface;
extern crate rustc_middle;
extern crate rustc_span;

use rustc_abi::{FieldsShape, VariantIdx, FIRST_VARIANT};
use rustc_driver::Compilation;
use rustc_hir::def::DefKind;
use rustc_hir::def_id::{DefId, LocalDefId};
use rustc_middle::mir::interpret::{AllocRange, GlobalAlloc};
use rustc_middle::mir::*;
use rustc_middle::ty::print::{with_no_trimmed_paths, with_no_visible_paths, PrintTraitRefExt};
use rustc_middle::ty::TypeVisitableExt;
use rustc_middle::ty::{self, Instance, Ty, TyCtxt, TypingEnv};
use std::fmt::Write as _;

// ------------------------------------------------------------------------------------------------
// tiny JSON helpers

fn esc(s: &str) -> String {
    let mut o = String::with_capacity(s.len() + 2);
    o.push('"');
    for c in s.chars() {
        match c {
            '"' => o.push_str("\\\""),
            '\\' => o.push_str("\\\\"),
            '\n' => o.push_str("\\n"),
            '\r' => o.push_str("\\r"),
            '\t' => o.push_str("\\t"),
            c if (c as u32) < 0x20 => {
                let _ = write!(o, "\\u{:04x}", c as u32);
            }
            c => o.push(c),
        }
    }
    o.push('"');
    o
}

fn arr(items: Vec<String>) -> String {
    format!("[{}]", items.join(","))
}

fn obj(items: Vec<(&str, String)>) -> String {
    let v: Vec<String> = items.into_iter().map(|(k, v)| format!("{}:{}", esc(k), v)).collect();
    format!("{{{}}}", v.join(","))
}

fn hex(bytes: &[u8]) -> String {
    let mut s = String::with_capacity(bytes.len() * 2 + 2);
    s.push('"');
    for b in bytes {
        let _ = write!(s, "{:02x}", b);
    }
    s.push('"');
    s
}

// ------------------------------------------------------------------------------------------------

struct Cx<'tcx> {
    tcx: TyCtxt<'tcx>,
}

impl<'tcx> Cx<'tcx> {
    fn path(&self, did: DefId) -> String {
        with_no_visible_paths!(with_no_trimmed_paths!(self.tcx.def_path_str(did)))
    }

    fn ty_str(&self, ty: Ty<'tcx>) -> String {
        with_no_visible_paths!(with_no_trimmed_paths!(format!("{}", ty)))
    }

    // Line-free key of a function-like item.
    fn key(&self, did: DefId) -> String {
        let tcx = self.tcx;
        match tcx.def_kind(did) {
            DefKind::Closure => {
                let parent = tcx.parent(did);
                // index among closures of the same parent, in definition order
                let mut n = 0;
                if let Some(ldid) = did.as_local() {
                    for c in tcx.hir_body_owners() {
                        if c == ldid {
                            break;
                        }
                        if tcx.def_kind(c) == DefKind::Closure && tcx.parent(c.to_def_id()) == parent {
                            n += 1;
                        }
                    }
                }
                format!("{}::{{closure#{}}}", self.key(parent), n)
            }
            _ => self.path(did),
        }
    }

    fn line(&self, span: rustc_span::Span) -> (String, usize, usize) {
        let sm = self.tcx.sess.source_map();
        let lo = sm.lookup_char_pos(span.lo());
        let hi = sm.lookup_char_pos(span.hi());
        let file = match &lo.file.name {
            rustc_span::FileName::Real(r) => {
                r.local_path().map(|p| p.display().to_string()).unwrap_or_else(|| format!("{:?}", r))
            }
            other => format!("{:?}", other),
        };
        (file, lo.line, hi.line)
    }

    fn adt_of(&self, ty: Ty<'tcx>) -> Option<String> {
        let mut t = ty;
        loop {
            match t.kind() {
                ty::Ref(_, inner, _) => t = *inner,
                ty::RawPtr(inner, _) => t = *inner,
                ty::Adt(def, _) => return Some(self.path(def.did())),
                _ => return None,
            }
        }
    }

    // ---------------------------------------------------------------------------------------
    // constants

    fn alloc_bytes(&self, alloc_id: rustc_middle::mir::interpret::AllocId, offset: u64, size: u64) -> Option<Vec<u8>> {
        match self.tcx.global_alloc(alloc_id) {
            GlobalAlloc::Memory(a) => {
                let a = a.inner();
                let total = a.len() as u64;
                if offset + size > total {
                    return None;
                }
                let r = AllocRange { start: rustc_abi::Size::from_bytes(offset), size: rustc_abi::Size::from_bytes(size) };
                Some(a.inspect_with_uninit_and_ptr_outside_interpreter(r.start.bytes_usize()..(r.start.bytes_usize() + r.size.bytes_usize())).to_vec())
            }
            _ => None,
        }
    }

    fn const_value(&self, val: ConstValue, ty: Ty<'tcx>, env: TypingEnv<'tcx>, max_bytes: u64) -> Vec<(&'static str, String)> {
        let mut out = vec![];
        match val {
            ConstValue::Scalar(s) => match s {
                rustc_middle::mir::interpret::Scalar::Int(i) => {
                    let bits = i.to_bits_unchecked();
                    out.push(("int", format!("{}", bits)));
                    out.push(("size", format!("{}", i.size().bytes())));
                }
                rustc_middle::mir::interpret::Scalar::Ptr(p, _) => {
                    // pointer to an allocation: a reference constant (e.g. &[T; N] or &T)
                    let (prov, off) = p.into_raw_parts();
                    let alloc_id = prov.alloc_id();
                    if let ty::Ref(_, inner, _) = ty.kind() {
                        out.push(("ref_to", esc(&self.ty_str(*inner))));
                        if let Ok(layout) = self.tcx.layout_of(env.as_query_input(*inner)) {
                            let size = layout.size.bytes();
                            if size <= max_bytes {
                                if let Some(b) = self.alloc_bytes(alloc_id, off.bytes(), size) {
                                    out.push(("bytes", hex(&b)));
                                }
                            }
                        }
                    }
                    if let GlobalAlloc::Static(did) = self.tcx.global_alloc(alloc_id) {
                        out.push(("static", esc(&self.path(did))));
                    }
                    if let GlobalAlloc::Function { instance } = self.tcx.global_alloc(alloc_id) {
                        out.push(("fnptr", esc(&self.key(instance.def_id()))));
                    }
                }
            },
            ConstValue::ZeroSized => {
                out.push(("zst", "true".into()));
            }
            ConstValue::Slice { alloc_id, meta } => {
                // &str or &[u8]
                if let Some(b) = self.alloc_bytes(alloc_id, 0, meta) {
                    match std::str::from_utf8(&b) {
                        Ok(s) => out.push(("str", esc(s))),
                        Err(_) => out.push(("bytes", hex(&b))),
                    }
                }
            }
            ConstValue::Indirect { alloc_id, offset } => {
                if let Ok(layout) = self.tcx.layout_of(env.as_query_input(ty)) {
                    let size = layout.size.bytes();
                    if size <= max_bytes {
                        if let Some(b) = self.alloc_bytes(alloc_id, offset.bytes(), size) {
                            out.push(("bytes", hex(&b)));
                        }
                    } else {
                        out.push(("big", format!("{}", size)));
                    }
                }
            }
        }
        out
    }

    fn konst(&self, c: &ConstOperand<'tcx>, env: TypingEnv<'tcx>, owner: DefId) -> String {
        let tcx = self.tcx;
        let ty = c.const_.ty();
        let mut items: Vec<(&str, String)> = vec![("ty", esc(&self.ty_str(ty)))];
        // function items
        if let ty::FnDef(did, args) = ty.kind() {
            let (rk, rargs, resolved) = self.resolve(*did, args, env);
            items.push(("fn", esc(&rk)));
            items.push(("fn_decl", esc(&self.key(*did))));
            items.push(("args", arr(rargs)));
            items.push(("resolved", format!("{}", resolved)));
            return obj(items);
        }
        match c.const_ {
            Const::Unevaluated(uv, _) => {
                match uv.promoted {
                    Some(p) => {
                        items.push(("promoted", format!("{}", p.as_usize())));
                        items.push(("promoted_of", esc(&self.key(uv.def))));
                    }
                    None => {
                        items.push(("def", esc(&self.path(uv.def))));
                        // trait associated const on a type parameter stays symbolic
                        let ga: Vec<String> = uv.args.iter().map(|a| esc(&with_no_trimmed_paths!(format!("{}", a)))).collect();
                        items.push(("def_args", arr(ga)));
                    }
                }
                let _ = owner;
            }
            _ => {}
        }
        // try to evaluate (never for generic-dependent constants)
        let needs_subst = c.const_.has_non_region_param();
        if !needs_subst {
            if let Ok(v) = c.const_.eval(tcx, env, c.span) {
                items.extend(self.const_value(v, ty, env, 4096));
            }
        } else {
            items.push(("generic", "true".into()));
        }
        obj(items)
    }

    // Resolve a callee to the concrete impl item when possible.
    fn resolve(&self, did: DefId, args: ty::GenericArgsRef<'tcx>, env: TypingEnv<'tcx>) -> (String, Vec<String>, bool) {
        let tcx = self.tcx;
        let sargs = |a: ty::GenericArgsRef<'tcx>| -> Vec<String> {
            a.iter().map(|x| esc(&with_no_trimmed_paths!(format!("{}", x)))).collect()
        };
        if let Ok(Some(inst)) = Instance::try_resolve(tcx, env, did, args) {
            let rd = inst.def_id();
            let is_item = matches!(inst.def, ty::InstanceKind::Item(_));
            if is_item {
                return (self.key(rd), sargs(inst.args), rd != did || tcx.trait_of_assoc(did).is_none());
            }
            // virtual / intrinsic / shims: keep the declared item
            return (self.key(did), sargs(args), false);
        }
        (self.key(did), sargs(args), false)
    }

    // ---------------------------------------------------------------------------------------
    // MIR

    fn place(&self, body: &Body<'tcx>, p: &Place<'tcx>) -> String {
        let tcx = self.tcx;
        let mut projs = vec![];
        let mut pty = PlaceTy::from_ty(body.local_decls[p.local].ty);
        for elem in p.projection.iter() {
            let s = match elem {
                ProjectionElem::Deref => esc("*"),
                ProjectionElem::Field(f, fty) => {
                    let mut items = vec![("f", format!("{}", f.as_usize()))];
                    match pty.ty.kind() {
                        ty::Adt(def, _) => {
                            let vi = pty.variant_index.unwrap_or(FIRST_VARIANT);
                            let v = def.variant(vi);
                            items.push(("n", esc(v.fields[f].name.as_str())));
                            items.push(("adt", esc(&self.path(def.did()))));
                            if def.is_enum() {
                                items.push(("v", esc(v.name.as_str())));
                            }
                        }
                        ty::Closure(did, _) => {
                            items.push(("closure", esc(&self.key(*did))));
                        }
                        _ => {}
                    }
                    items.push(("ty", esc(&self.ty_str(fty))));
                    obj(items)
                }
                ProjectionElem::Index(l) => obj(vec![("i", format!("{}", l.as_usize()))]),
                ProjectionElem::ConstantIndex { offset, min_length, from_end } => obj(vec![
                    ("ci", format!("{}", offset)),
                    ("min", format!("{}", min_length)),
                    ("from_end", format!("{}", from_end)),
                ]),
                ProjectionElem::Subslice { from, to, from_end } => obj(vec![
                    ("sub", arr(vec![format!("{}", from), format!("{}", to)])),
                    ("from_end", format!("{}", from_end)),
                ]),
                ProjectionElem::Downcast(name, vi) => {
                    let n = match name {
                        Some(s) => s.as_str().to_string(),
                        None => match pty.ty.kind() {
                            ty::Adt(def, _) => def.variant(vi).name.as_str().to_string(),
                            _ => format!("{}", vi.as_usize()),
                        },
                    };
                    obj(vec![("dc", esc(&n)), ("vi", format!("{}", vi.as_usize()))])
                }
                ProjectionElem::OpaqueCast(_) => esc("opaque"),
                ProjectionElem::UnwrapUnsafeBinder(_) => esc("unwrap_binder"),
            };
            projs.push(s);
            pty = pty.projection_ty(tcx, elem);
        }
        obj(vec![("l", format!("{}", p.local.as_usize())), ("p", arr(projs))])
    }

    fn operand(&self, body: &Body<'tcx>, o: &Operand<'tcx>, env: TypingEnv<'tcx>, owner: DefId) -> String {
        match o {
            Operand::Copy(p) => obj(vec![("c", self.place(body, p))]),
            Operand::Move(p) => obj(vec![("m", self.place(body, p))]),
            Operand::Constant(c) => obj(vec![("k", self.konst(c, env, owner))]),
            Operand::RuntimeChecks(rc) => obj(vec![("rt", esc(&format!("{:?}", rc)))]),
        }
    }

    fn rvalue(&self, body: &Body<'tcx>, rv: &Rvalue<'tcx>, env: TypingEnv<'tcx>, owner: DefId) -> String {
        let op = |o: &Operand<'tcx>| self.operand(body, o, env, owner);
        match rv {
            Rvalue::Use(o, _) => obj(vec![("rv", esc("use")), ("op", op(o))]),
            Rvalue::Repeat(o, n) => obj(vec![
                ("rv", esc("repeat")),
                ("op", op(o)),
                ("n", esc(&with_no_trimmed_paths!(format!("{}", n)))),
            ]),
            Rvalue::Ref(_, bk, p) => {
                let k = match bk {
                    BorrowKind::Shared => "shared",
                    BorrowKind::Fake(_) => "fake",
                    BorrowKind::Mut { .. } => "mut",
                };
                obj(vec![("rv", esc("ref")), ("bk", esc(k)), ("pl", self.place(body, p))])
            }
            Rvalue::ThreadLocalRef(d) => obj(vec![("rv", esc("tls")), ("def", esc(&self.path(*d)))]),
            Rvalue::RawPtr(k, p) => {
                let k = match k {
                    RawPtrKind::Mut => "mut",
                    RawPtrKind::Const => "const",
                    RawPtrKind::FakeForPtrMetadata => "fake",
                };
                obj(vec![("rv", esc("rawptr")), ("bk", esc(k)), ("pl", self.place(body, p))])
            }
            Rvalue::Cast(k, o, t) => obj(vec![
                ("rv", esc("cast")),
                ("kind", esc(&format!("{:?}", k))),
                ("op", op(o)),
                ("ty", esc(&self.ty_str(*t))),
            ]),
            Rvalue::BinaryOp(b, ops) => obj(vec![
                ("rv", esc("bin")),
                ("bop", esc(&format!("{:?}", b))),
                ("a", op(&ops.0)),
                ("b", op(&ops.1)),
            ]),
            Rvalue::UnaryOp(u, o) => obj(vec![("rv", esc("un")), ("uop", esc(&format!("{:?}", u))), ("op", op(o))]),
            Rvalue::Discriminant(p) => {
                let pt = p.ty(body, self.tcx).ty;
                let mut items = vec![("rv", esc("discr")), ("pl", self.place(body, p))];
                if let Some(a) = self.adt_of(pt) {
                    items.push(("adt", esc(&a)));
                }
                obj(items)
            }
            Rvalue::Aggregate(kind, ops) => {
                let mut items = vec![("rv", esc("agg"))];
                match &**kind {
                    AggregateKind::Array(t) => {
                        items.push(("kind", esc("array")));
                        items.push(("elem", esc(&self.ty_str(*t))));
                    }
                    AggregateKind::Tuple => items.push(("kind", esc("tuple"))),
                    AggregateKind::Adt(did, vi, _, _, active) => {
                        let def = self.tcx.adt_def(*did);
                        let v = def.variant(*vi);
                        items.push(("kind", esc("adt")));
                        items.push(("adt", esc(&self.path(*did))));
                        items.push(("variant", esc(v.name.as_str())));
                        items.push(("vi", format!("{}", vi.as_usize())));
                        let names: Vec<String> = match active {
                            Some(f) => vec![esc(v.fields[*f].name.as_str())],
                            None => v.fields.iter().map(|f| esc(f.name.as_str())).collect(),
                        };
                        items.push(("fields", arr(names)));
                    }
                    AggregateKind::Closure(did, _) => {
                        items.push(("kind", esc("closure")));
                        items.push(("closure", esc(&self.key(*did))));
                    }
                    AggregateKind::Coroutine(did, _) | AggregateKind::CoroutineClosure(did, _) => {
                        items.push(("kind", esc("coroutine")));
                        items.push(("closure", esc(&self.key(*did))));
                    }
                    AggregateKind::RawPtr(..) => items.push(("kind", esc("rawptr"))),
                }
                items.push(("ops", arr(ops.iter().map(|o| op(o)).collect())));
                obj(items)
            }
            Rvalue::CopyForDeref(p) => obj(vec![("rv", esc("use")), ("op", obj(vec![("c", self.place(body, p))]))]),
            Rvalue::WrapUnsafeBinder(o, _) => obj(vec![("rv", esc("use")), ("op", op(o))]),
        }
    }

    fn body(&self, did: DefId, body: &Body<'tcx>, key: String, kind: &str) -> String {
        let tcx = self.tcx;
        let env = TypingEnv::post_analysis(tcx, did);
        let (file, lo, hi) = self.line(body.span);
        let mut items: Vec<(&str, String)> = vec![
            ("key", esc(&key)),
            ("kind", esc(kind)),
            ("file", esc(&file)),
            ("lo", format!("{}", lo)),
            ("hi", format!("{}", hi)),
            ("arg_count", format!("{}", body.arg_count)),
        ];
        // locals
        let mut names: Vec<Option<String>> = vec![None; body.local_decls.len()];
        for vdi in &body.var_debug_info {
            if let VarDebugInfoContents::Place(p) = &vdi.value {
                if p.projection.is_empty() {
                    names[p.local.as_usize()] = Some(vdi.name.as_str().to_string());
                }
            }
        }
        let mut upvars = vec![];
        for vdi in &body.var_debug_info {
            if let VarDebugInfoContents::Place(p) = &vdi.value {
                if !p.projection.is_empty() && p.local.as_usize() == 1 {
                    upvars.push(obj(vec![("name", esc(vdi.name.as_str())), ("place", self.place(body, p))]));
                }
            }
        }
        items.push(("upvars", arr(upvars)));
        let locals: Vec<String> = body
            .local_decls
            .iter_enumerated()
            .map(|(l, d)| {
                let mut it = vec![("ty", esc(&self.ty_str(d.ty)))];
                if let Some(a) = self.adt_of(d.ty) {
                    it.push(("adt", esc(&a)));
                }
                let r = match d.ty.kind() {
                    ty::Ref(_, _, m) => {
                        if m.is_mut() {
                            "mut"
                        } else {
                            "shared"
                        }
                    }
                    ty::RawPtr(..) => "raw",
                    _ => "",
                };
                if !r.is_empty() {
                    it.push(("ref", esc(r)));
                }
                if let Some(n) = &names[l.as_usize()] {
                    it.push(("name", esc(n)));
                }
                obj(it)
            })
            .collect();
        items.push(("locals", arr(locals)));

        let mut blocks = vec![];
        for (_bb, data) in body.basic_blocks.iter_enumerated() {
            let mut stmts = vec![];
            for st in &data.statements {
                let (_, line, _) = self.line(st.source_info.span);
                let exp = st.source_info.span.from_expansion();
                let s = match &st.kind {
                    StatementKind::Assign(b) => {
                        let (p, rv) = &**b;
                        Some(vec![
                            ("k", esc("assign")),
                            ("pl", self.place(body, p)),
                            ("rv", self.rvalue(body, rv, env, did)),
                        ])
                    }
                    StatementKind::SetDiscriminant { place, variant_index } => Some(vec![
                        ("k", esc("setdiscr")),
                        ("pl", self.place(body, place)),
                        ("vi", format!("{}", variant_index.as_usize())),
                    ]),
                    StatementKind::Intrinsic(i) => Some(vec![("k", esc("intrinsic")), ("what", esc(&format!("{:?}", i)))]),
                    StatementKind::StorageLive(_)
                    | StatementKind::StorageDead(_)
                    | StatementKind::FakeRead(_)
                    | StatementKind::PlaceMention(_)
                    | StatementKind::AscribeUserType(..)
                    | StatementKind::Coverage(..)
                    | StatementKind::ConstEvalCounter
                    | StatementKind::Nop
                    | StatementKind::BackwardIncompatibleDropHint { .. } => None,
                };
                if let Some(mut s) = s {
                    s.push(("line", format!("{}", line)));
                    if exp {
                        s.push(("exp", "true".into()));
                    }
                    stmts.push(obj(s));
                }
            }
            let term = data.terminator();
            let (_, tline, _) = self.line(term.source_info.span);
            let unwind = |u: &UnwindAction| -> String {
                match u {
                    UnwindAction::Cleanup(b) => format!("{}", b.as_usize()),
                    _ => "null".into(),
                }
            };
            let mut t: Vec<(&str, String)> = match &term.kind {
                TerminatorKind::Goto { target } => vec![("k", esc("goto")), ("target", format!("{}", target.as_usize()))],
                TerminatorKind::SwitchInt { discr, targets } => {
                    let tv: Vec<String> =
                        targets.iter().map(|(v, b)| arr(vec![format!("{}", v), format!("{}", b.as_usize())])).collect();
                    vec![
                        ("k", esc("switch")),
                        ("discr", self.operand(body, discr, env, did)),
                        ("discr_ty", esc(&self.ty_str(discr.ty(body, tcx)))),
                        ("targets", arr(tv)),
                        ("otherwise", format!("{}", targets.otherwise().as_usize())),
                    ]
                }
                TerminatorKind::UnwindResume => vec![("k", esc("resume"))],
                TerminatorKind::UnwindTerminate(_) => vec![("k", esc("terminate"))],
                TerminatorKind::Return => vec![("k", esc("return"))],
                TerminatorKind::Unreachable => vec![("k", esc("unreachable"))],
                TerminatorKind::Drop { place, target, unwind: u, .. } => vec![
                    ("k", esc("drop")),
                    ("pl", self.place(body, place)),
                    ("target", format!("{}", target.as_usize())),
                    ("unwind", unwind(u)),
                ],
                TerminatorKind::Call { func, args, destination, target, unwind: u, call_source, fn_span } => {
                    let mut it = vec![("k", esc("call"))];
                    it.push(("func", self.operand(body, func, env, did)));
                    if let Some((cd, cargs)) = func.const_fn_def() {
                        let (rk, rargs, resolved) = self.resolve(cd, cargs, env);
                        it.push(("callee", esc(&rk)));
                        it.push(("decl", esc(&self.key(cd))));
                        it.push(("gargs", arr(rargs)));
                        it.push(("resolved", format!("{}", resolved)));
                        let sig = tcx.fn_sig(cd).skip_binder();
                        if sig.safety().is_unsafe() {
                            it.push(("callee_unsafe", "true".into()));
                        }
                        if cd.is_local() || tcx.def_kind(cd) == DefKind::AssocFn || tcx.def_kind(cd) == DefKind::Fn {
                            it.push(("callee_crate", esc(tcx.crate_name(cd.krate).as_str())));
                        }
                    }
                    it.push(("args", arr(args.iter().map(|a| self.operand(body, &a.node, env, did)).collect())));
                    it.push(("dest", self.place(body, destination)));
                    it.push(("target", match target {
                        Some(b) => format!("{}", b.as_usize()),
                        None => "null".into(),
                    }));
                    it.push(("unwind", unwind(u)));
                    it.push(("source", esc(&format!("{:?}", call_source))));
                    if fn_span.from_expansion() {
                        it.push(("exp", "true".into()));
                    }
                    it
                }
                TerminatorKind::TailCall { .. } => vec![("k", esc("tailcall"))],
                TerminatorKind::Assert { cond, expected, msg, target, unwind: u } => {
                    let (kind, ops): (String, Vec<String>) = match &**msg {
                        AssertKind::BoundsCheck { len, index } => (
                            "bounds".into(),
                            vec![self.operand(body, len, env, did), self.operand(body, index, env, did)],
                        ),
                        AssertKind::Overflow(b, x, y) => (
                            format!("overflow:{:?}", b),
                            vec![self.operand(body, x, env, did), self.operand(body, y, env, did)],
                        ),
                        AssertKind::OverflowNeg(x) => ("overflow_neg".into(), vec![self.operand(body, x, env, did)]),
                        AssertKind::DivisionByZero(x) => ("div_zero".into(), vec![self.operand(body, x, env, did)]),
                        AssertKind::RemainderByZero(x) => ("rem_zero".into(), vec![self.operand(body, x, env, did)]),
                        other => (format!("other:{:?}", std::mem::discriminant(other)), vec![]),
                    };
                    vec![
                        ("k", esc("assert")),
                        ("cond", self.operand(body, cond, env, did)),
                        ("expected", format!("{}", expected)),
                        ("akind", esc(&kind)),
                        ("aops", arr(ops)),
                        ("target", format!("{}", target.as_usize())),
                        ("unwind", unwind(u)),
                    ]
                }
                TerminatorKind::FalseEdge { real_target, .. } => {
                    vec![("k", esc("goto")), ("target", format!("{}", real_target.as_usize()))]
                }
                TerminatorKind::FalseUnwind { real_target, .. } => {
                    vec![("k", esc("goto")), ("target", format!("{}", real_target.as_usize()))]
                }
                TerminatorKind::Yield { .. } | TerminatorKind::CoroutineDrop | TerminatorKind::InlineAsm { .. } => {
                    vec![("k", esc("other"))]
                }
            };
            t.push(("line", format!("{}", tline)));
            if term.source_info.span.from_expansion() {
                t.push(("exp", "true".into()));
            }
            let mut b = vec![("stmts", arr(stmts)), ("term", obj(t))];
            if data.is_cleanup {
                b.push(("cleanup", "true".into()));
            }
            blocks.push(obj(b));
        }
        items.push(("blocks", arr(blocks)));
        obj(items)
    }

    // ---------------------------------------------------------------------------------------

    fn adt(&self, did: DefId) -> String {
        let tcx = self.tcx;
        let def = tcx.adt_def(did);
        let generics = tcx.generics_of(did);
        let mono = !generics.requires_monomorphization(tcx);
        let env = TypingEnv::post_analysis(tcx, did);
        let ty = tcx.type_of(did).instantiate_identity().skip_norm_wip();
        let layout = if mono { tcx.layout_of(env.as_query_input(ty)).ok() } else { None };
        let mut variants = vec![];
        for (vi, v) in def.variants().iter_enumerated() {
            let discr = if def.is_enum() { format!("{}", def.discriminant_for_variant(tcx, vi).val) } else { "0".into() };
            let mut fields = vec![];
            for (fi, f) in v.fields.iter_enumerated() {
                let fty = tcx.type_of(f.did).instantiate_identity().skip_norm_wip();
                let mut it = vec![
                    ("name", esc(f.name.as_str())),
                    ("ty", esc(&self.ty_str(fty))),
                    ("pub", format!("{}", f.vis.is_public())),
                    ("vis", esc(&format!("{:?}", f.vis))),
                ];
                if let Some(l) = &layout {
                    if !def.is_enum() {
                        if let FieldsShape::Arbitrary { offsets, .. } = &l.fields {
                            it.push(("offset", format!("{}", offsets[fi].bytes())));
                        }
                    }
                }
                fields.push(obj(it));
            }
            variants.push(obj(vec![("name", esc(v.name.as_str())), ("discr", discr), ("fields", arr(fields))]));
        }
        let (file, lo, hi) = self.line(tcx.def_span(did));
        let mut items = vec![
            ("path", esc(&self.path(did))),
            ("kind", esc(if def.is_enum() { "enum" } else if def.is_struct() { "struct" } else { "union" })),
            ("repr", esc(&format!("{:?}", def.repr()))),
            ("pub", format!("{}", tcx.visibility(did).is_public())),
            ("file", esc(&file)),
            ("lo", format!("{}", lo)),
            ("hi", format!("{}", hi)),
            ("variants", arr(variants)),
        ];
        if let Some(l) = &layout {
            items.push(("size", format!("{}", l.size.bytes())));
        }
        let _ = VariantIdx::from_u32(0);
        obj(items)
    }
}

struct Extract {
    out_dir: String,
    config: String,
}

impl rustc_driver::Callbacks for Extract {
    fn config(&mut self, config: &mut rustc_interface::interface::Config) {
        config.opts.unstable_opts.mir_opt_level = Some(0);
    }

    fn after_analysis<'tcx>(&mut self, _c: &rustc_interface::interface::Compiler, tcx: TyCtxt<'tcx>) -> Compilation {
        let cx = Cx { tcx };
        let crate_name = tcx.crate_name(rustc_hir::def_id::LOCAL_CRATE).to_string();
        let mut bodies = vec![];
        let mut consts = vec![];
        let mut fns = vec![];
        for ldid in tcx.hir_body_owners() {
            let did = ldid.to_def_id();
            let kind = tcx.def_kind(did);
            match kind {
                DefKind::Fn | DefKind::AssocFn | DefKind::Closure => {
                    let body = tcx.optimized_mir(did);
                    let key = cx.key(did);
                    let k = match kind {
                        DefKind::Fn => "fn",
                        DefKind::AssocFn => "method",
                        _ => "closure",
                    };
                    let mut b = cx.body(did, body, key.clone(), k);
                    // signature facts for fn items
                    if kind != DefKind::Closure {
                        let sig = tcx.fn_sig(did).skip_binder().skip_binder();
                        let inputs: Vec<String> = sig.inputs().iter().map(|t| esc(&cx.ty_str(*t))).collect();
                        let vis = tcx.visibility(did);
                        let mut it = vec![
                            ("key", esc(&key)),
                            ("unsafe", format!("{}", sig.safety().is_unsafe())),
                            ("inputs", arr(inputs)),
                            ("output", esc(&cx.ty_str(sig.output()))),
                            ("pub", format!("{}", vis.is_public())),
                            ("vis", esc(&format!("{:?}", vis))),
                        ];
                        if let Some(t) = tcx.trait_of_assoc(did) {
                            it.push(("trait_decl", esc(&cx.path(t))));
                        }
                        if let Some(impl_did) = tcx.impl_of_assoc(did) {
                            if let Some(tr) = tcx.impl_opt_trait_ref(impl_did) {
                                let tr = tr.instantiate_identity().skip_norm_wip();
                                it.push(("impl_trait", esc(&with_no_trimmed_paths!(format!("{}", tr.print_only_trait_path())))));
                                it.push(("impl_self", esc(&cx.ty_str(tr.self_ty()))));
                            } else {
                                let st = tcx.type_of(impl_did).instantiate_identity().skip_norm_wip();
                                it.push(("impl_self", esc(&cx.ty_str(st))));
                            }
                        }
                        let attrs: Vec<String> = vec![];
                        it.push(("attrs", arr(attrs)));
                        fns.push(obj(it));
                    }
                    // promoted constants of this body
                    let promoted = tcx.promoted_mir(did);
                    let mut pv = vec![];
                    for (pi, pb) in promoted.iter_enumerated() {
                        pv.push(cx.body(did, pb, format!("{}::{{promoted#{}}}", key, pi.as_usize()), "promoted"));
                    }
                    if !pv.is_empty() {
                        b.pop();
                        b.push_str(&format!(",\"promoted\":{}}}", arr(pv)));
                    }
                    bodies.push(b);
                }
                DefKind::Const { .. } | DefKind::AssocConst { .. } => {
                    consts.push(ldid);
                }
                _ => {}
            }
        }
        // constants: evaluate the non-generic ones
        let mut cvals = vec![];
        for ldid in consts {
            let did = ldid.to_def_id();
            if tcx.generics_of(did).requires_monomorphization(tcx) {
                continue;
            }
            // associated consts of generic impls / traits without default are skipped
            if let Some(p) = tcx.opt_parent(did) {
                if matches!(tcx.def_kind(p), DefKind::Trait) {
                    continue;
                }
                if matches!(tcx.def_kind(p), DefKind::Impl { .. }) && tcx.generics_of(p).requires_monomorphization(tcx) {
                    continue;
                }
            }
            let ty = tcx.type_of(did).instantiate_identity().skip_norm_wip();
            let env = TypingEnv::post_analysis(tcx, did);
            let mut items = vec![("path", esc(&cx.path(did))), ("ty", esc(&cx.ty_str(ty)))];
            let (file, lo, _) = cx.line(tcx.def_span(did));
            items.push(("file", esc(&file)));
            items.push(("line", format!("{}", lo)));
            items.push(("pub", format!("{}", tcx.visibility(did).is_public())));
            if let Ok(v) = tcx.const_eval_poly(did) {
                items.extend(cx.const_value(v, ty, env, 16 * 1024 * 1024));
            } else {
                items.push(("error", "true".into()));
            }
            cvals.push(obj(items));
        }
        // ADTs and impls
        let mut adts = vec![];
        let mut impls = vec![];
        let mut traits = vec![];
        for ldid in tcx.hir_crate_items(()).definitions() {
            let did = ldid.to_def_id();
            match tcx.def_kind(did) {
                DefKind::Struct | DefKind::Enum | DefKind::Union => adts.push(cx.adt(did)),
                DefKind::Impl { .. } => {
                    let st = tcx.type_of(did).instantiate_identity().skip_norm_wip();
                    let mut it = vec![("self_ty", esc(&cx.ty_str(st)))];
                    if let Some(tr) = tcx.impl_opt_trait_ref(did) {
                        let tr = tr.instantiate_identity().skip_norm_wip();
                        it.push(("trait", esc(&with_no_trimmed_paths!(format!("{}", tr.print_only_trait_path())))));
                        it.push(("trait_def", esc(&cx.path(tr.def_id))));
                    }
                    let its: Vec<String> = tcx
                        .associated_items(did)
                        .in_definition_order()
                        .map(|a| esc(&cx.key(a.def_id)))
                        .collect();
                    it.push(("items", arr(its)));
                    let (file, lo, _) = cx.line(tcx.def_span(did));
                    it.push(("file", esc(&file)));
                    it.push(("line", format!("{}", lo)));
                    let automatically_derived = tcx.is_automatically_derived(did);
                    it.push(("derived", format!("{}", automatically_derived)));
                    impls.push(obj(it));
                }
                DefKind::Trait => {
                    let its: Vec<String> = tcx
                        .associated_items(did)
                        .in_definition_order()
                        .map(|a| esc(&cx.key(a.def_id)))
                        .collect();
                    traits.push(obj(vec![("path", esc(&cx.path(did))), ("items", arr(its))]));
                }
                _ => {}
            }
        }
        // re-exports at the crate root: which items are nameable by users
        let mut exports = vec![];
        for child in tcx.module_children_local(rustc_hir::def_id::CRATE_DEF_ID) {
            if child.vis.is_public() {
                if let Some(d) = child.res.opt_def_id() {
                    exports.push(obj(vec![("name", esc(child.ident.as_str())), ("path", esc(&cx.path(d)))]));
                }
            }
        }
        let target_features: Vec<String> =
            tcx.sess.target_features.iter().map(|s| esc(s.as_str())).collect();
        let doc = obj(vec![
            ("crate", esc(&crate_name)),
            ("config", esc(&self.config)),
            ("target_features", arr(target_features)),
            ("bodies", arr(bodies)),
            ("fns", arr(fns)),
            ("consts", arr(cvals)),
            ("adts", arr(adts)),
            ("impls", arr(impls)),
            ("traits", arr(traits)),
            ("exports", arr(exports)),
        ]);
        let path = format!("{}/{}.json", self.out_dir, crate_name);
        std::fs::write(&path, doc).expect("write facts");
        let _: Option<LocalDefId> = None;
        Compilation::Continue
    }
}

struct Passthrough;
impl rustc_driver::Callbacks for Passthrough {}

fn main() {
    let mut args: Vec<String> = std::env::args().collect();
    // RUSTC_WORKSPACE_WRAPPER: argv[1] is the real rustc path
    if args.len() > 1 && (args[1].ends_with("rustc") || args[1].contains("/rustc")) {
        args.remove(1);
    }
    let crate_name = args
        .iter()
        .position(|a| a == "--crate-name")
        .and_then(|i| args.get(i + 1))
        .cloned()
        .unwrap_or_default();
    let wanted = std::env::var("CHESSFACTS_CRATES").unwrap_or_else(|_| "chess".into());
    let out_dir = std::env::var("CHESSFACTS_OUT").unwrap_or_default();
    let config = std::env::var("CHESSFACTS_CONFIG").unwrap_or_else(|_| "default".into());
    if !out_dir.is_empty() && wanted.split(',').any(|c| c == crate_name) {
        let mut cb = Extract { out_dir, config };
        rustc_driver::run_compiler(&args, &mut cb);
    } else {
        rustc_driver::run_compiler(&args, &mut Passthrough);
    }
}
