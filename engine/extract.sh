#!/bin/bash
# usage: extract.sh <repo dir> <out dir> <config: default|bmi2|nodebug>
# Runs the chessfacts driver as RUSTC_WORKSPACE_WRAPPER under `cargo +nightly check --offline`
# on <repo dir> with a fresh target directory (so cargo's freshness cache can never skip it).
set -euo pipefail
REPO=$1; OUT=$2; CONFIG=${3:-default}
HERE=$(cd "$(dirname "$0")" && pwd)
DRV=$HERE/chessfacts/target/release/chessfacts
[ -x "$DRV" ] || { echo "driver not built: run setup" >&2; exit 2; }
SYSROOT=$(rustc +nightly --print sysroot)
TGT=$(mktemp -d /tmp/chessfacts-target.XXXXXX)
trap 'rm -rf "$TGT"' EXIT
mkdir -p "$OUT"
FLAGS="-Awarnings"
if [ "$CONFIG" = "bmi2" ]; then FLAGS="$FLAGS -C target-feature=+bmi2"; fi
# the library as a release profile sees it: debug_assert! bodies and overflow checks compiled out
if [ "$CONFIG" = "nodebug" ]; then FLAGS="$FLAGS -C debug-assertions=off"; fi
cd "$REPO"
# the build script runs the table generators: bound it (a broken generator must not hang the check)
ulimit -v 16000000 2>/dev/null || true
LD_LIBRARY_PATH=$SYSROOT/lib CARGO_NET_OFFLINE=true RUSTFLAGS="$FLAGS" \
  RUSTC_WORKSPACE_WRAPPER=$DRV CHESSFACTS_OUT=$OUT CHESSFACTS_CONFIG=$CONFIG \
  CARGO_TARGET_DIR=$TGT timeout -k 5 ${CHESSFACTS_TIMEOUT:-900} cargo +nightly check --offline --lib >"$OUT/cargo.log" 2>&1 || { cat "$OUT/cargo.log" >&2; exit 2; }
[ -s "$OUT/chess.json" ] || { echo "no fact file written" >&2; exit 2; }
